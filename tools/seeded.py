#!/venv/bin/python
"""
Seeded realistic breakages (written by independent sub-agents that saw only the
property text).

  tools/seeded.py add <src_dir> <name> --prop Cxx [--skip-suite]
      verify in a scratch worktree of /repo HEAD that
        (a) the demo passes on the clean tree,
        (b) the patch applies and the demo fails with it,
        (c) the pinned test-suite still passes (every BASELINE stable_pass test),
      then store patch.diff / demo.py / notes.md / meta.json under seeded/<name>/.
  tools/seeded.py check [<name> ...] [--secs N]
      run the property's check against each stored patch (scratch worktree,
      VERIF_REPO) and record caught / missed in meta.json.
  tools/seeded.py table
      print the catch table.
"""
import argparse
import json
import os
import shutil
import subprocess
import sys
import tempfile
import xml.etree.ElementTree as ET
from pathlib import Path

VERIF = Path(__file__).resolve().parent.parent
REPO = '/repo'
PY = '/venv/bin/python'


def sh(cmd, cwd=None, timeout=None, env=None):
    p = subprocess.run(cmd, cwd=cwd, capture_output=True, text=True, timeout=timeout, env=env, check=False)
    return p.returncode, p.stdout + p.stderr


def make_worktree():
    d = tempfile.mkdtemp(prefix='lokiseed-', dir='/tmp')
    os.rmdir(d)
    subprocess.run(['git', '-C', REPO, 'worktree', 'add', '--detach', d, 'HEAD', '-q'], check=True)
    return Path(d)


def drop_worktree(d):
    subprocess.run(['git', '-C', REPO, 'worktree', 'remove', '--force', str(d)], check=False)
    shutil.rmtree(d, ignore_errors=True)
    subprocess.run(['git', '-C', REPO, 'worktree', 'prune'], check=False)


def run_demo(wt, demo_rel):
    env = dict(os.environ)
    env.pop('PYTHONPATH', None)
    try:
        return sh([PY, demo_rel], cwd=str(wt), timeout=900, env=env)
    except subprocess.TimeoutExpired:
        return 124, 'demo timed out'


def run_suite(wt, jobs=10):
    junit = wt / '_junit.xml'
    sh([PY, '-m', 'pytest', '-q', '-p', 'no:cacheprovider', '--timeout=900', '--continue-on-collection-errors',
        '-n', str(jobs), f'--junitxml={junit}'], cwd=str(wt), timeout=3600)
    passed = set()
    if junit.exists():
        for tc in ET.parse(junit).getroot().iter('testcase'):
            if not any(c.tag in ('failure', 'error', 'skipped') for c in tc):
                passed.add(f'{tc.get("classname")}::{tc.get("name")}')
    base = set(json.load(open('/root/.vp/BASELINE.json'))['stable_pass'])
    return sorted(base - passed), len(passed)


def add(a):
    src = Path(a.src)
    out = VERIF / 'seeded' / a.name
    patch = (src / 'patch.diff').read_text()
    wt = make_worktree()
    meta = {'name': a.name, 'property': a.prop, 'origin': 'independent sub-agent given only the property text',
            'repo_head': subprocess.run(['git', '-C', REPO, 'rev-parse', '--short', 'HEAD'],
                                        capture_output=True, text=True, check=True).stdout.strip()}
    try:
        demo_rel = f'_out/{src.name}/demo.py'
        (wt / '_out' / src.name).mkdir(parents=True)
        shutil.copy(src / 'demo.py', wt / demo_rel)
        for extra in src.iterdir():
            if extra.name not in ('demo.py', 'patch.diff') and extra.is_file() and extra.stat().st_size < 200000:
                shutil.copy(extra, wt / '_out' / src.name / extra.name)
        rc0, out0 = run_demo(wt, demo_rel)
        meta['demo_clean_rc'] = rc0
        if rc0 != 0:
            print(f'[{a.name}] REJECTED: demo fails on the clean tree (rc={rc0})\n{out0[-800:]}')
            return 1
        rc, o = sh(['git', 'apply', str((src / 'patch.diff').resolve())], cwd=str(wt))
        if rc != 0:
            print(f'[{a.name}] REJECTED: patch does not apply to HEAD\n{o[-600:]}')
            return 1
        rc, o = sh([PY, '-c', 'import loki'], cwd=str(wt))
        if rc != 0:
            print(f'[{a.name}] REJECTED: import fails with patch\n{o[-600:]}')
            return 1
        rc1, out1 = run_demo(wt, demo_rel)
        meta['demo_patched_rc'] = rc1
        meta['demo_patched_tail'] = out1[-600:]
        if rc1 == 0:
            print(f'[{a.name}] REJECTED: demo passes with the patch applied')
            return 1
        if not a.skip_suite:
            missing, npass = run_suite(wt)
            meta['suite'] = {'passed': npass, 'baseline_tests_not_passing': missing[:20]}
            if missing:
                print(f'[{a.name}] REJECTED: {len(missing)} baseline tests no longer pass: {missing[:5]}')
                return 1
        else:
            meta['suite'] = 'skipped'
    finally:
        drop_worktree(wt)
    out.mkdir(parents=True, exist_ok=True)
    (out / 'patch.diff').write_text(patch)
    shutil.copy(src / 'demo.py', out / 'demo.py')
    if (src / 'notes.md').exists():
        shutil.copy(src / 'notes.md', out / 'notes.md')
        meta['needs_to_manifest'] = 'see notes.md'
    meta['ran'] = ['demo on clean worktree of HEAD (exit 0)', 'git apply patch.diff; import loki',
                   'demo on patched worktree (exit != 0)',
                   'full pinned suite with -n 10 on the patched worktree: every BASELINE stable_pass test passes'
                   if not a.skip_suite else 'suite skipped']
    (out / 'meta.json').write_text(json.dumps(meta, indent=1))
    print(f'[{a.name}] kept: demo clean rc=0, patched rc={meta["demo_patched_rc"]}, suite={meta["suite"] if a.skip_suite else "ok"}')
    return 0


def check(a):
    names = a.names or sorted(p.name for p in (VERIF / 'seeded').iterdir() if (p / 'meta.json').exists())
    bad = 0
    for name in names:
        d = VERIF / 'seeded' / name
        meta = json.loads((d / 'meta.json').read_text())
        props = [a.prop] if a.prop else [meta['property']] + meta.get('also_check', [])
        wt = make_worktree()
        try:
            rc, o = sh(['git', 'apply', str(d / 'patch.diff')], cwd=str(wt))
            if rc != 0:
                print(f'{name}: patch no longer applies to HEAD')
                meta.setdefault('checks', {})['apply'] = 'patch no longer applies to HEAD'
                (d / 'meta.json').write_text(json.dumps(meta, indent=1))
                continue
            for prop in props:
                env = dict(os.environ, VERIF_REPO=str(wt))
                rc, out = sh([str(VERIF / 'check'), prop, '--secs', str(a.secs), '--jobs', str(a.jobs),
                              '--no-evidence'], cwd=str(VERIF), env=env, timeout=3600)
                viol = [l.strip() for l in out.splitlines() if l.strip().startswith('class=')]
                status = 'caught' if rc == 1 else ('missed' if rc == 0 else f'harness-error rc={rc}')
                meta.setdefault('checks', {})[prop] = {'status': status, 'secs': a.secs, 'violation': viol[:2]}
                print(f'{name}: {prop} {status} {viol[:1]}')
                if status != 'caught':
                    bad += 1
                    if status.startswith('harness'):
                        print(out[-1200:])
        finally:
            drop_worktree(wt)
        (d / 'meta.json').write_text(json.dumps(meta, indent=1))
    return 1 if bad else 0


def table(_a):
    rows = []
    for p in sorted((VERIF / 'seeded').iterdir()):
        if not (p / 'meta.json').exists():
            continue
        m = json.loads((p / 'meta.json').read_text())
        for prop, c in m.get('checks', {}).items():
            if isinstance(c, dict):
                rows.append((p.name, prop, c['status'], (c['violation'] or [''])[0][:90]))
            else:
                rows.append((p.name, prop, str(c), ''))
        if not m.get('checks'):
            rows.append((p.name, m['property'], 'not run', ''))
    for r in rows:
        print('| ' + ' | '.join(r) + ' |')
    return 0


def main():
    ap = argparse.ArgumentParser()
    sub = ap.add_subparsers(dest='cmd', required=True)
    p = sub.add_parser('add')
    p.add_argument('src')
    p.add_argument('name')
    p.add_argument('--prop', required=True)
    p.add_argument('--skip-suite', action='store_true')
    p = sub.add_parser('check')
    p.add_argument('names', nargs='*')
    p.add_argument('--secs', type=float, default=30)
    p.add_argument('--jobs', type=int, default=8)
    p.add_argument('--prop')
    sub.add_parser('table')
    a = ap.parse_args()
    return {'add': add, 'check': check, 'table': table}[a.cmd](a)


if __name__ == '__main__':
    sys.exit(main())
