#!/venv/bin/python
"""
Sensitivity self-test: apply each mutation of mutants/<prop>.json to a scratch
worktree of /repo (outside /repo and /verif), run the property's check against
it (VERIF_REPO), expect a VIOLATION, remove the worktree.

usage: tools/mutants.py <prop> [--only name] [--secs N] [--jobs N] [--patch file.diff]
"""
import argparse
import json
import os
import shutil
import subprocess
import sys
import tempfile
from pathlib import Path

VERIF = Path(__file__).resolve().parent.parent
REPO = os.environ.get('VERIF_REPO', '/repo')


def make_worktree():
    d = tempfile.mkdtemp(prefix='lokimut-', dir='/tmp')
    os.rmdir(d)
    subprocess.run(['git', '-C', REPO, 'worktree', 'add', '--detach', d, 'HEAD', '-q'], check=True)
    return Path(d)


def drop_worktree(d):
    subprocess.run(['git', '-C', REPO, 'worktree', 'remove', '--force', str(d)], check=False)
    shutil.rmtree(d, ignore_errors=True)
    subprocess.run(['git', '-C', REPO, 'worktree', 'prune'], check=False)


def run_check(prop, wt, secs, jobs, seed=0):
    env = dict(os.environ, VERIF_REPO=str(wt))
    cmd = [str(VERIF / 'check'), prop, '--secs', str(secs), '--jobs', str(jobs), '--no-evidence',
           '--seed', str(seed)]
    p = subprocess.run(cmd, env=env, cwd=str(VERIF), capture_output=True, text=True, check=False)
    return p.returncode, p.stdout + p.stderr


def main():
    ap = argparse.ArgumentParser()
    ap.add_argument('prop')
    ap.add_argument('--only')
    ap.add_argument('--secs', type=float, default=20)
    ap.add_argument('--jobs', type=int, default=8)
    ap.add_argument('--patch', help='apply this diff instead of the mutants file')
    ap.add_argument('--check-prop', help='run this property check (default: prop)')
    a = ap.parse_args()
    results = []
    if a.patch:
        muts = [{'name': Path(a.patch).parent.name + '/' + Path(a.patch).name, 'patch': a.patch}]
    else:
        muts = json.loads((VERIF / 'mutants' / f'{a.prop}.json').read_text())
    for m in muts:
        if a.only and m['name'] != a.only:
            continue
        if m.get('equivalent') and not a.only:
            print(f'MUTANT {m["name"]}: skipped (equivalent: {m["equivalent"]})')
            continue
        wt = make_worktree()
        try:
            if 'patch' in m:
                subprocess.run(['git', '-C', str(wt), 'apply', str(Path(m['patch']).resolve())], check=True)
            else:
                f = wt / m['file']
                s = f.read_text()
                if s.count(m['old']) != 1:
                    print(f'MUTANT {m["name"]}: pattern matches {s.count(m["old"])} times -- stale mutant')
                    results.append((m['name'], 'stale'))
                    continue
                f.write_text(s.replace(m['old'], m['new']))
            rc, out = run_check(a.check_prop or a.prop, wt, a.secs, a.jobs)
            viol = [l for l in out.splitlines() if l.startswith('VIOLATION') or l.startswith('  class=')]
            status = 'caught' if rc == 1 and viol else ('MISSED' if rc == 0 else f'error rc={rc}')
            print(f'MUTANT {m["name"]}: {status}')
            for l in viol[:4]:
                print('    ' + l[:300])
            if status.startswith('error'):
                print(out[-1500:])
            results.append((m['name'], status))
        finally:
            drop_worktree(wt)
    bad = [r for r in results if r[1] != 'caught']
    print(f'{len(results) - len(bad)}/{len(results)} mutants caught')
    return 1 if bad else 0


if __name__ == '__main__':
    sys.exit(main())
