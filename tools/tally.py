#!/venv/bin/python
"""
Development aid: run N generated scenarios of one property and tally the violation signatures (no minimisation,
no verdict).  Used to see which input features a known finding really depends on, so that its entry in
known_findings.jsonl can be made as narrow as possible.

usage: tools/tally.py <prop> [--runs N] [--jobs J] [--seed S] [--tier quick|thorough] [--all]
"""
import argparse
import collections
import os
import sys
from concurrent.futures import ProcessPoolExecutor
import multiprocessing as mp

sys.path.insert(0, os.path.dirname(os.path.dirname(os.path.abspath(__file__))))


def block(args):
    prop, seed, tier, start, count = args
    from sim import core  # pylint: disable=import-outside-toplevel
    core.bootstrap()
    out = []
    for i in range(start, start + count):
        rs = core.run_seed_of(seed, prop, i)
        try:
            run = core.fresh_run(prop, rs, tier)
        except Exception as e:  # pylint: disable=broad-except
            out.append((i, 'HARNESS', f'{type(e).__name__}: {e}'[:200], ''))
            continue
        seen = set()
        for v in run.violations:
            if v.sig not in seen:
                seen.add(v.sig)
                out.append((i, v.cls, v.sig, v.detail[:300]))
        if not run.violations:
            out.append((i, '-', '-', ''))
    return out


def main():
    ap = argparse.ArgumentParser()
    ap.add_argument('prop')
    ap.add_argument('--runs', type=int, default=2000)
    ap.add_argument('--jobs', type=int, default=12)
    ap.add_argument('--seed', type=int, default=0)
    ap.add_argument('--tier', default='quick')
    ap.add_argument('--all', action='store_true', help='also list signatures matched by known findings')
    ap.add_argument('--examples', type=int, default=1)
    a = ap.parse_args()
    os.chdir(os.path.dirname(os.path.dirname(os.path.abspath(__file__))))
    from sim.cli import load_known, match_known  # pylint: disable=import-outside-toplevel
    known, _ = load_known()
    per = max(1, a.runs // (a.jobs * 4))
    jobs = [(a.prop, a.seed, a.tier, s, min(per, a.runs - s)) for s in range(0, a.runs, per)]
    tally = collections.Counter()
    ex = collections.defaultdict(list)
    clean = 0
    with ProcessPoolExecutor(a.jobs, mp_context=mp.get_context('fork')) as pool:
        for res in pool.map(block, jobs):
            for i, cls, sig, detail in res:
                if cls == '-':
                    clean += 1
                    continue
                tally[sig] += 1
                if len(ex[sig]) < a.examples:
                    ex[sig].append((i, detail))
    print(f'{a.runs} runs, {clean} without violation')
    for sig, n in sorted(tally.items(), key=lambda kv: -kv[1]):
        k = match_known(known, a.prop, sig)
        if k and not a.all:
            continue
        print(f'{n:6d} {"known" if k else "NEW  "} {sig}')
        for i, d in ex[sig]:
            print(f'         run {i}: {d}')


if __name__ == '__main__':
    main()
