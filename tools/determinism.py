#!/venv/bin/python
"""
Determinism self-test (DESIGN 4.11): every run seed is executed several times
-- in different fresh interpreters, in ascending and descending block position,
under different scratch directories, under concurrent load, and (engines that
claim hash-seed independence) under different PYTHONHASHSEEDs -- and the
event-history digests are diffed.  Any difference is exit 2.

usage: tools/determinism.py <prop> [--n 200] [--tier quick] [--seed 0] [--procs 4]
"""
import argparse
import json
import os
import subprocess
import sys
from pathlib import Path

VERIF = Path(__file__).resolve().parent.parent


def child(a):
    sys.path.insert(0, str(VERIF))
    from sim import core
    core.bootstrap()
    idx = list(range(a.lo, a.hi))
    if a.reverse:
        idx.reverse()
    out = {}
    for i in idx:
        rs = core.run_seed_of(a.seed, a.prop, i)
        run = core.fresh_run(a.prop, rs, a.tier)
        out[i] = [run.digest(), sorted(v.cls for v in run.violations), len(run.sched.log)]
    json.dump(out, open(a.out, 'w'))


def main():
    ap = argparse.ArgumentParser()
    ap.add_argument('prop')
    ap.add_argument('--n', type=int, default=200)
    ap.add_argument('--tier', default='quick')
    ap.add_argument('--seed', type=int, default=0)
    ap.add_argument('--procs', type=int, default=4)
    ap.add_argument('--child', action='store_true')
    ap.add_argument('--lo', type=int)
    ap.add_argument('--hi', type=int)
    ap.add_argument('--reverse', action='store_true')
    ap.add_argument('--out')
    a = ap.parse_args()
    if a.child:
        return child(a)
    sys.path.insert(0, str(VERIF))
    from sim.registry import ENGINES
    import importlib
    mod, cls = ENGINES[a.prop]
    hs_indep = getattr(importlib.import_module(mod), cls).hashseed_independent
    work = VERIF / '.work' / f'det-{a.prop}-{os.getpid()}'
    work.mkdir(parents=True, exist_ok=True)
    chunk = -(-a.n // a.procs)
    variants = [  # (name, hashseed, reverse, chunks)
        ('A', '101', False, a.procs),
        ('B', '202' if hs_indep else '101', True, max(1, a.procs // 2)),
        ('C', '303' if hs_indep else '101', False, 1),
    ]
    procs = []
    for name, hs, rev, nchunks in variants:
        size = -(-a.n // nchunks)
        for c in range(nchunks):
            lo, hi = c * size, min(a.n, (c + 1) * size)
            if lo >= hi:
                continue
            out = work / f'{name}-{c}.json'
            env = dict(os.environ, PYTHONHASHSEED=hs, VERIF_SCRATCH=f'/tmp/lokisim-det-{name}-{os.getpid()}',
                       PYTHONPATH=str(VERIF))
            cmd = [sys.executable, __file__, a.prop, '--child', '--lo', str(lo), '--hi', str(hi), '--tier', a.tier,
                   '--seed', str(a.seed), '--out', str(out)] + (['--reverse'] if rev else [])
            procs.append((name, out, subprocess.Popen(cmd, env=env, cwd=str(VERIF))))
    _ = chunk
    res = {}
    bad = False
    for name, out, p in procs:
        if p.wait() != 0:
            print(f'HARNESS-ERROR determinism child {name} failed')
            bad = True
            continue
        res.setdefault(name, {}).update(json.loads(out.read_text()))
    import shutil
    shutil.rmtree(work, ignore_errors=True)
    for name in res:
        shutil.rmtree(f'/tmp/lokisim-det-{name}-{os.getpid()}', ignore_errors=True)
    if bad:
        return 2
    diffs = []
    for i in sorted(res['A'], key=int):
        vals = {name: tuple(map(str, res[name].get(i))) for name in res}
        if len(set(vals.values())) != 1:
            diffs.append((i, vals))
    print(f'[{a.prop}] determinism: {len(res["A"])} run seeds x {len(res)} variants '
          f'(hash seeds {"differ" if hs_indep else "equal"}, fresh interpreters, block position, scratch dir): '
          f'{len(diffs)} differences')
    for i, vals in diffs[:5]:
        print(f'  index {i}: {vals}')
    return 2 if diffs else 0


if __name__ == '__main__':
    sys.exit(main())
