#!/venv/bin/python
"""Regenerate MANIFEST.json from the tables below (keeps it valid at all times)."""
import json
from pathlib import Path

VERIF = Path(__file__).resolve().parent.parent

CLAIMED = {
    # id: (engine, design_ref, technique, level text, level_note)
    'C44': ('poolsim/build', 'DESIGN.md sec. 5 (C44), 4.2-4.5',
            'deterministic simulation: seeded schedule/fault search over a simulated process pool with virtual time, '
            'stub compiler, history oracle (dependency order, exactly-once, serial-equivalence, bounded liveness)',
            'Seeded exploration of worker schedules, completion orders, topological tie-breaks, compile failures and '
            'stalled workers (>60 virtual s) for generated module DAGs; the real Builder/Obj/Lib/workqueue code runs '
            'against a simulated pool and stub compiler. Sampling, not proof.',
            'Pool abstraction: FIFO start, arbitrary completion order, pickle-by-value transport; the stub compiler '
            'models only "reads .mod of used modules at start, writes .mod/.o at end". Real compilers, f90wrap and the '
            'mtime skip logic are outside.'),
    'C42': ('poolsim/lint', 'DESIGN.md sec. 5 (C42), 4.3-4.4',
            'deterministic simulation: real lint_files code on a simulated process pool + manager (baton threads, '
            'pickle transport, every proxy request a pre-emption point), seeded schedule search, serial run of the '
            'same code as reference model',
            'Seeded exploration of worker counts, task interleavings at every manager request / file effect, and '
            'completion orders for generated file sets (incl. unparsable and non-UTF-8 files, fix mode); oracle: '
            'per-handler multiset of per-file reports, checked count, violations YAML, JUnit XML and fixed tree equal '
            'the max_workers=1 run; each selected file checked exactly once. Sampling, not proof.',
            'multiprocessing is abstracted to FIFO start, arbitrary completion order, pickle-by-value transport and '
            'atomic proxy requests; fork-inherited globals, manager-process death and the log funnel are outside.'),
    'C12': ('scopeworld', 'DESIGN.md sec. 5 (C12)',
            'deterministic simulation (history class): seeded operation histories over nested real Scope/SymbolTable/'
            'CaseInsensitiveDict objects with simulator-chosen spelling, re-parenting and GC points, refinement-checked '
            'step by step against a dict-chain reference model',
            'Seeded exploration of operation histories (set/setdefault/update/get/lookup/in/del/pop/clone/'
            're-parenting/declare/update/get_type/get_symbol_scope, mutation of returned and inserted attributes) on '
            'forests of up to 6 tables with keys in mixed spelling; after every step the full table state, parent '
            'links, membership and recursive look-up of every probe key are compared with the model. Sampling, not proof.',
            'Only case-insensitive tables (the statement); plain Scope().clone() and case-sensitive tables are outside. '
            'The harness holds strong references to every table/scope, so GC perturbation must not change any answer.'),
    'C13': ('scopeworld', 'DESIGN.md sec. 5 (C13)',
            'deterministic simulation (history clause): seeded histories of symbol creation, type updates, clone/rescope/'
            'detach on shared scopes with GC perturbation; oracle = classification rule + visibility of type updates',
            'Seeded exploration of histories over up to 5 nested scopes and 14 live symbols: creation by name (with/'
            'without scope, type, subscripts, derived-type parent), type updates through table, Scope API, clone and '
            'setter, rename-clones, rescoping and detaching. Checks: class of the created symbol follows the statement\'s '
            'rule from the type recorded for the name; after an update in a scope every symbol of that name attached to '
            'it reports the new type, unattached and unrelated symbols keep theirs. Sampling, not proof.',
            'The inputs cross-product of the statement is covered only as far as histories draw it. Symbols attached to '
            'descendant scopes are not judged after an update in an ancestor (the statement does not say).'),
    'C16': ('attachworld', 'DESIGN.md sec. 5 (C16)',
            'deterministic simulation with fault injection: seeded well-nested programs over the attach/detach '
            'contexts (pragmas, pragma regions, dataflow) with an exception injected at a simulator-chosen body step '
            'that unwinds through all enclosing contexts; before/after oracle at quiescence',
            'Seeded exploration of nesting histories (depth <= 4, context managers and explicit function pairs, '
            'routine and module targets, node-type subsets, keyword filters) on generated units with pragmas before/'
            'after loops, declarations and calls, matched/nested/unmatched/crossed region pairs; fault = exception at '
            'an arbitrary body step. Oracle: fgen and section-level conservative output byte-identical, canonical '
            'structural dump identical, all prior node objects still in the tree, no PragmaRegion / attached pragma / '
            'dataflow slot left. Sampling, not proof.',
            'Exceptions raised by attach itself make a run inconclusive (the statement speaks of the body); '
            'Source.status bookkeeping is judged only through the conservative backend output.'),
    'C21': ('batchworld', 'DESIGN.md sec. 5 (C21), Appendix A',
            'deterministic simulation: the simulator owns the environment-decided orders of Scheduler construction '
            '(set iteration order of discovered paths, topological tie-breaks, PYTHONHASHSEED, lazy vs full parse); '
            'repeated constructions of one generated project must agree, and agree with a reference closure',
            'Decided by simulation: the graph (nodes, edges, is_ignored) does not depend on enumeration order, hash '
            'seed, topological tie-break or full_parse, for generated multi-file projects (modules, free routines, '
            'qualified/renamed/unqualified imports, type and variable imports, generic interfaces, type-bound procedures, '
            'recursion incl. mutual, externals, '
            'file names differing only in case) and configs (seeds, disable/block/ignore in every documented spelling incl. '
            'fnmatch patterns and type parents, expand, '
            'strict, enable_imports). Only sampled: equality with the reference closure computed from the generator\'s '
            'model. Sampling, not proof.',
            'Reference closure covers the documented sub-language of DESIGN Appendix A and section 10.2 (no function '
            'references); behaviour outside it is not judged.'),
    'C22': ('batchworld', 'DESIGN.md sec. 5 (C22)',
            'deterministic simulation: seeded choice among valid topological orders and enumeration orders while a '
            'recording probe transformation is processed under generated manifests; history oracle over the probe log',
            'Seeded exploration of projects x configs x manifests (item filters, reverse, file-graph traversal, '
            'processing of ignored items, SEQUENCE/PLAN strategy) under adversarial valid orders. Oracle over the '
            'probe history: exactly-once per selected item and none other; callers before callees (reverse: after) for '
            'every dependency path; role/mode as configured; targets sandwich; file-graph passes visit each containing '
            'file once in an order consistent with cross-file edges; with recurse_to_modules/procedures the hooks received '
            'inside each file name only graph items, honour ignore rules, each procedure once; PLAN calls only plan_* '
            'hooks; IR edits between passes. Sampling, not proof.',
            'InterfaceItem (documented as not a work item) is optional in the exactly-once check; targets entries of '
            'renamed imports are not judged.'),
    'C24': ('batchworld/plan', 'DESIGN.md sec. 5 (C24)',
            'deterministic simulation: the real plan and convert CLIs are run in-process on identical copies of a '
            'generated project under independently drawn environment orders (set order, topological tie-breaks), with '
            'a storage recorder on Sourcefile.to_file; the plan lists are compared with the recorded writes',
            'Seeded exploration of projects x configs (roles, replicate, lib, ignore/block/disable, expand) x pipelines '
            '(Idem, ModuleWrap, Dependency, DuplicateKernel, RemoveKernel, FileWrite options, modes with dashes, build '
            'dir inside/outside the tree, --root). Oracle: plan run writes no source; LOKI_SOURCES_TO_APPEND = set of '
            'files the conversion wrote; TRANSFORM = originals they derive from; REMOVE = those originals that are not '
            'replicated. Sampling, not proof.',
            'Conversions that fail themselves are inconclusive. Several plan/convert mismatches for item-renaming and '
            'item-duplicating pipelines exist on the unchanged tree and are listed in known_findings.jsonl by signature; '
            'a different violation is still reported. A build following the plan is not compiled.'),
    'C25': ('batchworld/history', 'DESIGN.md sec. 5 (C25)',
            'deterministic simulation (history class): seeded sequences of item-renaming / creating / removing '
            'Scheduler.process steps on one real Scheduler under simulator-chosen enumeration and topological orders; '
            'invariants over item_cache, graph, config and IR after every step, strict rediscovery of the written sources',
            'Seeded exploration of step histories (Idem, ModuleWrap, Dependency, DuplicateKernel with/without subgraph, '
            'RemoveKernel, a second renaming pass; documented orders only) on generated projects. After every step: cache keys '
            '= item names; every seed names a graph item; renaming steps keep the number of non-ignored procedure items; '
            'every graph item resolves to IR of its name, no two items share a routine; graph membership and '
            'scheduler[name] agree with iteration; every call of a processed routine names a graph item it has an edge '
            'to (or an excluded name); a later no-op transformation visits exactly the graph\'s procedure items. After a '
            'final FileWrite a fresh strict Scheduler over written files + untouched originals resolves everything. '
            'Sampling, not proof.',
            'Most of the search budget goes to the layout the transformations are written for (one kernel per module, '
            'one unit per file, qualified imports); violations on other layouts exist on the unchanged tree and are '
            'listed in known_findings.jsonl by feature signature. "Compile and link" is approximated by Loki\'s own '
            'strict resolution, no compiler is run.'),
    'C17': ('cloneworld', 'DESIGN.md sec. 5 (C17)',
            'deterministic simulation (two-owner interleaving): seeded histories of edits addressed by the simulator to '
            'the original or to its clone, with GC perturbation; isolation oracle against solo copies that received only '
            'their own edits, plus scope-chain invariant for every symbol of the clone',
            'Seeded exploration of interleaved edit histories (rename unit/member/variable, re-type, add/remove '
            'variables, body append/prepend, Transformer and SubstituteExpressions in-place or not, rescope_symbols, '
            'typedef and internal-procedure edits) on clones of a module (types, type-bound procedure, contained and '
            'internal procedures, imports, associate), of one of its routines and of the source file. After every step '
            'fgen(A) == fgen(solo A), fgen(B) == fgen(solo clone), every scoped symbol of B lives in B\'s scope chain '
            '(never in A\'s, never dead). Sampling, not proof.',
            'One fixed corpus unit (programs clause is not generated); operations address nodes by position; an '
            'operation that raises on both the shared and the solo copy is inconclusive.'),
    'C19': ('regexworld', 'DESIGN.md sec. 5 (C19)',
            'deterministic simulation (history clause): seeded sequences of incremental REGEX re-parse requests '
            '(target unit and parser-class subset chosen by the simulator) against one shared lazily parsed source '
            'file; confluence oracle against a one-shot parse. Program clause only sampled (one-shot REGEX vs FP on '
            'generated layouts)',
            'Decided by simulation: for generated files and request histories (<= 10 requests to file / module / '
            'routine / internal routine with 1-3 classes, arbitrary initial classes, repeats) the discovery summary '
            'after a final AllClasses request equals the one-shot parse, and after each request the target\'s own '
            'imports / calls / typedefs+bindings / interfaces of the requested kinds equal the one-shot ones. Only '
            'sampled: summary(REGEX) == summary(FP) on the generated layouts (continuation lines, semicolons, inline '
            'IF, keywords in comments and strings, labels, letter case, :: in USE, renames, bindings, interfaces, '
            'internal procedures, several units per file). Sampling, not proof.',
            'Object identity of units across requests (documented by make_complete) is only counted as a probe, the '
            'statement speaks about what is reported. Function references are not part of the summary.'),
}

NA_COMMON = ('pure function of (source text / IR, options, valuations): no scheduler, clock, fault, shared state '
             'between parties or environment-decided order for a simulator to own; needs program generation plus an '
             'external semantic oracle (differential testing / translation validation), which is a different technique')
NA = {
    'C01': 'parse->fgen is a pure function of the source; oracle would be compiled run-time behaviour. ' + NA_COMMON,
    'C02': 'fgen∘parse fixpoint: a pure function iterated. ' + NA_COMMON,
    'C03': 'conservative output after a single-party edit sequence on one tree; no shared state or environment in fgencon/Source/Transformer. ' + NA_COMMON,
    'C04': 'line wrapping is a pure function of the token list and style. ' + NA_COMMON,
    'C05': 'sanitize_input/reinsert are pure string rewrites. ' + NA_COMMON,
    'C06': 'expression printing vs evaluation: pure function of the tree. ' + NA_COMMON,
    'C07': 'parse_expr vs frontend: pure function of the string. ' + NA_COMMON,
    'C08': 'simplify value preservation: pure; oracle is arithmetic. ' + NA_COMMON,
    'C09': 'symbolic_op soundness: pure; oracle is validity over all valuations. ' + NA_COMMON,
    'C10': 'loop-range helpers vs DO semantics: pure arithmetic. ' + NA_COMMON,
    'C11': '==/hash laws on expression nodes: pure binary relation, no history. ' + NA_COMMON,
    'C14': 'Transformer result vs mapping: pure function of (tree, mapper, flags). ' + NA_COMMON,
    'C15': 'finders vs independent walk: pure function of the tree. ' + NA_COMMON,
    'C18': 'pickle round-trip of program units: pure function of the unit (pickling is used as transport inside the C42 simulation, but of linter objects, which does not decide C18). ' + NA_COMMON,
    'C20': 'source spans vs file text: pure function of the file. ' + NA_COMMON,
    'C23': 'invariance under letter-case permutation: a metamorphic relation between two inputs, no schedule or fault involved (the rename-while-hashed aspect is exercised under C25). ' + NA_COMMON,
    'C26': 'dataflow sets vs what an execution reads/writes: needs an instrumented interpreter or compiled trace as oracle. ' + NA_COMMON,
    'C27': 'dependency queries vs actual loop-carried values: same as C26. ' + NA_COMMON,
    'C40': 'idempotence of normalising transformations: a pure function applied twice. ' + NA_COMMON,
    'C41': 'well-formed IR after any built-in transformation: programs x transformations; the only environment factor (GC timing of weakly referenced scopes) is exercised structurally under C12/C13/C17. ' + NA_COMMON,
    'C43': 'lint auto-fix changes only what it targets: pure function of the file text plus a compiler oracle; its file write has no crash/fault clause in the statement. ' + NA_COMMON,
}
for i in list(range(28, 40)):
    cid = f'C{i}'
    if cid not in NA:
        NA[cid] = ('behaviour preservation of a program-in/program-out transformation; the oracle is compiled '
                   'execution of original vs transformed code. ' + NA_COMMON)

# properties planned but whose check is not built yet are listed as not applicable *yet* is wrong:
PENDING = {
    'C12': 'check under construction (scopeworld engine, see DESIGN.md sec. 5); not claimed until it exists',
    'C13': 'check under construction (scopeworld engine); not claimed until it exists',
    'C16': 'check under construction (attachworld engine); not claimed until it exists',
    'C17': 'check under construction (cloneworld engine); not claimed until it exists',
    'C19': 'check under construction (regexworld engine); not claimed until it exists',
    'C21': 'check under construction (batchworld engine); not claimed until it exists',
    'C22': 'check under construction (batchworld engine); not claimed until it exists',
    'C24': 'check under construction (batchworld plan/convert engine); not claimed until it exists',
    'C25': 'check under construction (batchworld item-history engine); not claimed until it exists',
    'C42': 'check under construction (poolsim/lint engine); not claimed until it exists',
}


def main():
    import sys
    sys.path.insert(0, str(VERIF))
    extra = {}
    claimed_file = VERIF / 'tools' / 'claimed.json'
    if claimed_file.exists():
        extra = json.loads(claimed_file.read_text())
    claimed = dict(CLAIMED)
    claimed.update({k: tuple(v) for k, v in extra.items()})
    checks = []
    for pid, (engine, ref, technique, text, note) in sorted(claimed.items()):
        checks.append({
            'property_id': pid,
            'quick_cmd': f'./check {pid} --tier quick',
            'thorough_cmd': f'./check {pid} --tier thorough',
            'evidence_file': f'evidence/{pid}.json',
            'replay_cmd_template': f'./check {pid} --replay {{path}}',
            'engine': engine,
            'level_claimed': {'category': 'exploration', 'text': text, 'design_ref': ref},
            'level_note': note,
            'technique': technique,
        })
    na = [{'property_id': k, 'reason': v} for k, v in sorted(NA.items())]
    na += [{'property_id': k, 'reason': v} for k, v in sorted(PENDING.items()) if k not in claimed]
    engines = {}
    for c in checks:
        engines.setdefault(c['engine'], []).append(c['property_id'])
    paths = {'poolsim/build': 'sim/engines/build.py', 'poolsim/lint': 'sim/engines/lint.py',
             'scopeworld': 'sim/engines/scope.py', 'attachworld': 'sim/engines/attach.py',
             'cloneworld': 'sim/engines/clone.py', 'regexworld': 'sim/engines/regex.py',
             'batchworld': 'sim/engines/batch.py', 'batchworld/plan': 'sim/engines/plan.py',
             'batchworld/history': 'sim/engines/itemhist.py'}
    man = {
        'version': 1,
        'setup_cmd': './setup.sh',
        'hooks': {
            'guard': 'LOKI_VERIF',
            'enable': 'no source hooks: every seam is reached by module-attribute substitution from the harness '
                      'process (sim/seams.py, sim/pool.py); checks import /repo\'s working tree directly (editable '
                      'install / VERIF_REPO on sys.path), nothing is built or cached',
            'baseline_off_cmd': 'cd /repo && env -u LOKI_VERIF /venv/bin/python -m pytest -ra -q -p no:cacheprovider '
                                '--timeout=900 --continue-on-collection-errors',
            'source_commits': [],
            'add_only': True,
        },
        'engines': [{'name': n, 'path': paths.get(n, ''), 'serves_properties': sorted(ps),
                     'kind_free_text': 'deterministic simulation world (seeded scheduler + fault injection) '
                                       'driving real Loki code; see DESIGN.md sec. 4-5'}
                    for n, ps in sorted(engines.items())],
        'checks': checks,
        'not_applicable': na,
        'notes': 'Technique family: deterministic simulation with fault injection. One integer (VERIF_SEED) decides '
                 'every run; each run seed is H("run", seed, property, index). Exit 0 = held, 1 = VIOLATION (minimised, '
                 're-verified by replay in a fresh interpreter), 2 = harness error (never a verdict). Known findings: '
                 'known_findings.jsonl. See DESIGN.md.',
    }
    (VERIF / 'MANIFEST.json').write_text(json.dumps(man, indent=1) + '\n')
    print(f'{len(checks)} checks, {len(na)} not applicable')


if __name__ == '__main__':
    main()
