import sys, hashlib
from loki.batch import Scheduler
proj, seeds, fp = sys.argv[1], sys.argv[2].split(','), sys.argv[3]=='1'
cfg = {'default': {'role':'kernel','expand':True,'strict':False,'enable_imports':True}, 'routines': {s: {'role':'driver'} for s in seeds}}
s = Scheduler(paths=[proj], config=cfg, seed_routines=seeds, full_parse=fp)
nodes = sorted((i.name, type(i).__name__, bool(i.is_ignored)) for i in s.items)
edges = sorted((a.name, b.name) for a,b in s.dependencies)
print(len(nodes), len(edges), hashlib.sha1(repr((nodes,edges)).encode()).hexdigest()[:12])
