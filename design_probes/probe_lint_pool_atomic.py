import sys, gc, pickle, random, io
sys.path.insert(0,"/repo/lint_rules")
from pathlib import Path
import loki.lint.linter as L
import loki.jit_build; W = sys.modules["loki.jit_build.workqueue"]
from loki.lint import lint_files, GenericHandler
import lint_rules.ifs_coding_standards_2011 as rules

rng = random.Random(int(sys.argv[1]))
REG = {}
class Proxy:
    def __init__(self, oid): self.oid = oid
    def __reduce__(self): return (Proxy, (self.oid,))
    @property
    def obj(self): return REG[self.oid]
class ListProxy(Proxy):
    def append(self, x): self.obj.append(pickle.dumps(x))
    def __iter__(self): return iter([pickle.loads(b) for b in self.obj])
    def __len__(self): return len(self.obj)
    def __reduce__(self): return (ListProxy, (self.oid,))
class DictProxy(Proxy):
    def __setitem__(self, k, v): self.obj[pickle.dumps(k)] = pickle.dumps(v)
    def items(self): return [(pickle.loads(k), pickle.loads(v)) for k, v in self.obj.items()]
    def __reduce__(self): return (DictProxy, (self.oid,))
class SimManager:
    def _new(self, cls, init):
        oid = len(REG); REG[oid] = init; return cls(oid)
    def dict(self): return self._new(DictProxy, {})
    def list(self, it=()): 
        p = self._new(ListProxy, []); [p.append(x) for x in it]; return p
    def Queue(self):
        return self._new(ListProxy, [])
class SimFuture:
    def __init__(self, ex, payload): self.ex, self.payload, self.done_, self.res, self.exc = ex, payload, False, None, None
    def run(self):
        fn, a, k = pickle.loads(self.payload)
        try: self.res = pickle.loads(pickle.dumps(fn(*a, **k)))
        except BaseException as e: self.exc = e
        self.done_ = True
    def result(self, timeout=None):
        while not self.done_: self.ex.step()
        if self.exc: raise self.exc
        return self.res
class SimExecutor:
    def __init__(self, max_workers=None): self.pending = []; self.order = []
    def __enter__(self): return self
    def __exit__(self, *a):
        while self.pending: self.step()
    def submit(self, fn, *a, **k):
        f = SimFuture(self, pickle.dumps((fn, a, k))); self.pending.append(f); return f
    def step(self):
        f = self.pending.pop(rng.randrange(len(self.pending))); f.run(); self.order.append(f)
def sim_as_completed(fs):
    fs = list(fs)
    ex = fs[0].ex
    seen = set()
    while len(seen) < len(fs):
        if not any(f.done_ and id(f) not in seen for f in fs): ex.step()
        for f in list(ex.order):
            if id(f) not in seen and f in fs: seen.add(id(f)); yield f
W.ProcessPoolExecutor = SimExecutor
W._initialized = True
W.Manager = SimManager
class NoListener:
    def __init__(self,*a,**k): pass
    def start(self): pass
    def stop(self): pass
W.QueueListener = NoListener
L.Manager = SimManager
L.as_completed = sim_as_completed

SINK = []
def sink(msg): SINK.append(msg)
class H(GenericHandler):
    def __init__(self, basedir): super().__init__(basedir)
    def handle(self, fr):
        return (str(self.get_relative_filename(fr.filename)), [(rr.rule.__name__, [ (p.msg, self.format_location(fr.filename, p.location)) for p in rr.problem_reports]) for rr in fr.reports])
    def output(self, reports): SINK.append(list(reports))
basedir = Path('/repo/loki/tests/sources')
w = int(sys.argv[2])
config = {'basedir': str(basedir), 'include': ['projA/**/*.f90','projA/**/*.F90'], 'max_workers': w}
import time; t0=time.time()
n = lint_files(rules, config, handlers=[H(basedir)])
print('checked', n, 'time', time.time()-t0)
rep = SINK[-1]
print(len(rep), sum(len(p) for _, rr in rep for _, p in rr))
import hashlib
print(hashlib.sha1(repr(sorted(rep)).encode()).hexdigest(), [r[0][-16:] for r in rep][:5])
