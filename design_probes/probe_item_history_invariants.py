import sys, shutil, re
from pathlib import Path
from loki import Scheduler, SchedulerConfig, ProcessingStrategy, Sourcefile
from loki.batch import Transformation, ProcedureItem, ModuleItem, FileItem, ExternalItem
from loki.ir import nodes as ir, FindNodes
from loki.transformations.dependency import DuplicateKernel, RemoveKernel
from loki.transformations.build_system import FileWriteTransformation, ModuleWrapTransformation, DependencyTransformation
exec(open('/tmp/scratch/exp13.py').read().split("config = {")[0].split("from loki.transformations.build_system import FileWriteTransformation, ModuleWrapTransformation, DependencyTransformation")[1])
config = {'default': {'mode':'idem','role':'kernel','expand':True,'strict':False}, 'routines': {'driver': {'role':'driver','expand':True}}}
root = Path('/tmp/scratch/c25'); shutil.rmtree(root, ignore_errors=True); (root/'src').mkdir(parents=True); (root/'build').mkdir()
(root/'src'/'driver.F90').write_text(drv); (root/'src'/'kernel_mod.F90').write_text(krn); (root/'src'/'leaf.F90').write_text(leaf)
class Probe(Transformation):
    def __init__(self): self.log=[]
    def transform_subroutine(self, routine, **kw): self.log.append(kw['item'].name)
def check(s, label):
    probs = []
    cache = s.item_factory.item_cache
    for k, it in cache.items():
        if k != it.name.lower(): probs.append(('key!=name', k, it.name))
    for it in s.items:
        if isinstance(it, ExternalItem): continue
        try:
            node = it.ir
            if node is None: probs.append(('ir None', it.name)); continue
            if isinstance(it, ProcedureItem) and node.name.lower() != it.local_name.split('#')[-1]: probs.append(('ir.name', it.name, node.name))
        except Exception as e: probs.append(('ir exc', it.name, repr(e)))
        if it not in s.sgraph._graph: probs.append(('not in graph by membership', it.name))
        if s[it.name] is not it: probs.append(('scheduler[name] mismatch', it.name))
    names = {i.local_name.split('#')[-1] for i in s.items} | {i.name for i in s.items}
    mods = {i.scope_name for i in s.items if i.scope_name}
    for it in s.items:
        if isinstance(it, ProcedureItem):
            for c in FindNodes(ir.CallStatement).visit(it.ir.body):
                if str(c.name).lower() not in names: probs.append(('dangling call', it.name, str(c.name)))
            for im in FindNodes(ir.Import).visit(it.ir.spec):
                if im.module.lower() not in mods and im.module.lower() not in cache: probs.append(('dangling import', it.name, im.module))
    p = Probe(); s.process(p)
    exp = sorted(i.name for i in s.items if isinstance(i, ProcedureItem))
    if sorted(p.log) != exp: probs.append(('probe', sorted(p.log), exp))
    print(label, 'items', sorted(i.name for i in s.items), 'PROBLEMS', probs)
seqs = {
 'wrapdep': [ModuleWrapTransformation(module_suffix='_mod'), DependencyTransformation(suffix='_test', module_suffix='_mod')],
 'dup': [DuplicateKernel(duplicate_kernels=('kernel',), duplicate_suffix='_new')],
 'dupsub': [DuplicateKernel(duplicate_kernels=('kernel',), duplicate_suffix='_new', duplicate_subgraph=True)],
 'rem': [RemoveKernel(remove_kernels=('leaf',))],
 'duprem': [DuplicateKernel(duplicate_kernels=('kernel',), duplicate_suffix='_new'), RemoveKernel(remove_kernels=('kernel',))],
 'dupwrapdep': [DuplicateKernel(duplicate_kernels=('kernel',), duplicate_suffix='_new'), ModuleWrapTransformation(module_suffix='_mod'), DependencyTransformation(suffix='_test', module_suffix='_mod')],
 'remwrapdep': [RemoveKernel(remove_kernels=('leaf',)), ModuleWrapTransformation(module_suffix='_mod'), DependencyTransformation(suffix='_test', module_suffix='_mod')],
 'dupUP': [DuplicateKernel(duplicate_kernels=('kernel',), duplicate_suffix='_NEW')],
}
seq = seqs[sys.argv[1]]
s = Scheduler(paths=[root/'src'], config=SchedulerConfig.from_dict(config), full_parse=True, output_dir=root/'build')
check(s, 'init')
for t in seq:
    s.process(t); check(s, type(t).__name__)
