import random, sys
import networkx as nx
import loki.batch.scheduler as S
import loki.batch.sfilter as F
from loki.batch import Scheduler, Transformation, ProcedureItem, ModuleItem, Item, TypeDefItem
seed = int(sys.argv[1]); rng = random.Random(seed)
def sim_set(it=()):
    l = list(dict.fromkeys(it)); rng.shuffle(l); return l
S.set = sim_set
class NXProxy:
    def __getattr__(self, k): return getattr(nx, k)
    @staticmethod
    def topological_sort(g):
        indeg = dict(g.in_degree()); ready = [n for n in g.nodes if indeg[n] == 0]
        while ready:
            n = ready.pop(rng.randrange(len(ready))); yield n
            for m in g.successors(n):
                indeg[m] -= 1
                if indeg[m] == 0: ready.append(m)
F.nx = NXProxy()
class Probe(Transformation):
    def __init__(self, **kw):
        self.log = []
        for k,v in kw.items(): setattr(self, k, v)
    def transform_subroutine(self, routine, **kw): self.log.append(('sub', routine.name.lower(), kw['item'].name if kw.get('item') else None, kw.get('role'), tuple(kw.get('targets') or ())))
    def transform_module(self, module, **kw): self.log.append(('mod', module.name.lower(), kw['item'].name if kw.get('item') else None, kw.get('role'), tuple(kw.get('targets') or ())))
    def transform_file(self, sf, **kw): self.log.append(('file', str(sf.path.name), kw['item'].name if kw.get('item') else None, kw.get('role'), tuple(kw.get('targets') or ())))
proj = sys.argv[2]; seeds = sys.argv[3].split(',')
cfg = {'default': {'role':'kernel','expand':True,'strict':False,'enable_imports':True}, 'routines': {s: {'role':'driver'} for s in seeds}}
s = Scheduler(paths=[proj], config=cfg, seed_routines=seeds)
items = {i.name: i for i in s.items}
edges = [(a.name, b.name) for a,b in s.dependencies]
print(len(items), 'items', len(edges), 'edges')
for fg in (False, True):
  for rev in (False, True):
    p = Probe(traverse_file_graph=fg, reverse_traversal=rev, item_filter=(ProcedureItem, ModuleItem) if rng.random()<.5 else ProcedureItem)
    s.process(p)
    names = [l[2] for l in p.log]
    assert len(names) == len(set(names)), ('dup', names)
    pos = {n:i for i,n in enumerate(names)}
    if not fg:
        bad = [(a,b) for a,b in edges if a in pos and b in pos and ((pos[a] > pos[b]) != rev)]
    else:
        # map item -> file
        f = {n: str(i.source.path).lower() for n,i in items.items() if getattr(i,'source',None) is not None}
        bad = [(a,b) for a,b in edges if a in f and b in f and f[a]!=f[b] and f[a] in pos and f[b] in pos and ((pos[f[a]] > pos[f[b]]) != rev)]
    print('filegraph' if fg else 'itemgraph', 'rev' if rev else 'fwd', len(names), 'visited', 'ORDER VIOLATIONS:', bad[:3])
