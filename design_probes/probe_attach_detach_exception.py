import sys
from loki import Subroutine, fgen
from loki.ir import nodes as ir, FindNodes, pragmas_attached, pragma_regions_attached
from loki.analyse import dataflow_analysis_attached
src = """
subroutine t(n, a, b)
  integer, intent(in) :: n
  !$loki dimension(n)
  real, intent(inout) :: a(n)
  real, intent(inout) :: b(n)
  integer :: i, j
  !$loki data
  !$omp parallel do
  do i=1,n
    a(i) = a(i) + 1.
    !$loki foo
    do j=1,n
      b(j) = a(i)
    end do
    !$loki end foo
  end do
  !$omp end parallel do
  !$loki end data
  !$loki bar
  call sub(a)
  !$loki end baz
  !$acc loop &
  !$acc&  gang
  do i=1,n
    b(i) = 0.
  end do
end subroutine t
"""
r = Subroutine.from_source(src)
ref = Subroutine.from_source(src)
before = fgen(r)
ids = {id(n) for n in FindNodes(ir.Node).visit(r.ir)}
class F(Exception): pass
try:
    with pragmas_attached(r, (ir.Loop, ir.VariableDeclaration, ir.CallStatement)):
        with pragma_regions_attached(r):
            with dataflow_analysis_attached(r):
                print(len(FindNodes(ir.PragmaRegion).visit(r.body)), [l.pragma for l in FindNodes(ir.Loop).visit(r.body)])
                raise F()
except F: pass
after = fgen(r)
print('fgen equal', before == after, 'struct equal', r.body == ref.body and r.spec == ref.spec)
ids2 = {id(n) for n in FindNodes(ir.Node).visit(r.ir)}
print('identity preserved', ids <= ids2, len(ids), len(ids2), 'regions left', len(FindNodes(ir.PragmaRegion).visit(r.body)))
if before != after:
    import difflib; print('\n'.join(difflib.unified_diff(before.splitlines(), after.splitlines(), lineterm='')))
a = Subroutine.from_source(src); b = Subroutine.from_source(src)
print('fresh pair equal:', a.body == b.body, a.spec == b.spec, a == b)
for x, y in zip(FindNodes(ir.Node).visit(r.body), FindNodes(ir.Node).visit(ref.body)):
    if x != y:
        print('DIFF', type(x).__name__, repr(x)[:80], '|', repr(y)[:80]); 
        for f in x.__dataclass_fields__:
            if getattr(x,f) != getattr(y,f): print('   field', f, repr(getattr(x,f))[:100], '|', repr(getattr(y,f))[:100])
        break
def walk(x, y, path=''):
    if isinstance(x, tuple):
        if len(x) != len(y): print(path, 'LEN', len(x), len(y)); return
        for i,(p,q) in enumerate(zip(x,y)): walk(p,q,f'{path}[{i}]')
    elif isinstance(x, ir.Node):
        if x != y:
            for f in x.__dataclass_fields__:
                p,q = getattr(x,f), getattr(y,f)
                if p != q:
                    if isinstance(p,(tuple, ir.Node)): walk(p,q,f'{path}.{f}')
                    else: print(path, f, type(p).__name__, repr(p)[:120], '|', repr(q)[:120], getattr(p,'__dict__',None), getattr(q,'__dict__',None))
walk(r.body, ref.body, 'body')
