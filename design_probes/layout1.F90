MODULE Lay_Mod
  USE other_mod, ONLY: a_t, &
     &  helper => real_helper, gvar
  use, intrinsic :: iso_c_binding, only: c_int
  IMPLICIT NONE
  INTERFACE gen
    MODULE PROCEDURE spec1, spec2
  END INTERFACE gen
  TYPE :: my_t
    INTEGER :: k
  CONTAINS
    PROCEDURE :: run => my_run
    PROCEDURE, PASS :: fin
  END TYPE my_t
CONTAINS
  SUBROUTINE spec1(x)
    INTEGER :: x
    ! call commented_out(x)
    x = 1; CALL semi_a(x); call semi_b(x)
    IF (x > 0) CALL inline_if(x)
    print *, 'call not_a_call(x)', " end subroutine fake"
    CALL cont_call( &
      & x)
10  CALL labelled(x)
    if (x == 1) then
      call in_block(x)
    endif
  END SUBROUTINE spec1
  subroutine spec2(y)
    real :: y
    type(my_t) :: v
    call v%run()
    call helper(y)
  end subroutine
  subroutine my_run(self)
    class(my_t) :: self
  end subroutine my_run
  subroutine fin(self)
    class(my_t) :: self
  end subroutine fin
END MODULE Lay_Mod
