import gc
from loki import Sourcefile, Module, Subroutine, fgen, Variable, SymbolAttributes, BasicType
from loki.ir import nodes as ir, FindNodes, FindVariables, Transformer, SubstituteExpressions
src = """
module m
  use other_mod, only: other_t
  implicit none
  type t
    real :: x(3)
    integer :: k
  end type t
  integer, parameter :: jp = 4
contains
  subroutine s(n, a, v)
    integer, intent(in) :: n
    real(kind=jp), intent(inout) :: a(n)
    type(t), intent(inout) :: v
    integer :: i
    do i=1,n
      a(i) = a(i) + v%x(1)
      call helper(a(i))
    end do
  contains
    subroutine helper(y)
      real(kind=jp), intent(inout) :: y
      y = y * 2 + real(n)
    end subroutine helper
  end subroutine s
end module m
"""
def ops(u, which):
    # deterministic edit set addressed by name
    r = u.subroutines[0]
    if which == 0: r.name = 's_new'
    if which == 1: r.symbol_attrs['i'] = r.symbol_attrs['i'].clone(kind=Variable(name='jp', scope=r))
    if which == 2: r.variables += (Variable(name='tmp', type=SymbolAttributes(BasicType.REAL), scope=r),)
    if which == 3:
        loop = FindNodes(ir.Loop).visit(r.body)[0]
        r.body = Transformer({loop: None}).visit(r.body)
    if which == 4:
        vmap = {v: v.clone(name='b') for v in FindVariables().visit(r.body) if v.name == 'a'}
        r.body = SubstituteExpressions(vmap).visit(r.body)
    if which == 5: u.name = 'm2'
    if which == 6: r.members[0].name = 'helper2' if hasattr(r,'members') else None
A = Module.from_source(src)
base = fgen(A)
B = A.clone()
print('clone fgen equal', fgen(B) == base)
# scope chains
def scopes_ok(u):
    own = set()
    def coll(x):
        own.add(id(x))
        for c in getattr(x,'subroutines',()): coll(c)
    coll(u)
    bad = []
    for r in [u] + list(u.subroutines) + [m for r_ in u.subroutines for m in r_.subroutines]:
        for sec in (r.spec, getattr(r,'body',None)):
            if sec is None: continue
            for v in FindVariables(unique=False).visit(sec):
                sc = v.scope
                if sc is None: bad.append((r.name, str(v), 'None')); continue
                chain = [sc] + list(sc.parents)
                # scope may be a TypeDef or Associate inside; climb until program unit
                if not any(id(c) in own for c in chain): bad.append((r.name, str(v), 'foreign'))
    return bad
print('B scopes bad:', scopes_ok(B)[:5])
import itertools
for seq in [(0,), (1,2), (3,), (4,5), (2,3,0)]:
    A = Module.from_source(src); B = A.clone()
    A1 = Module.from_source(src); B1 = Module.from_source(src).clone()
    # apply seq to A only; B must equal untouched clone; then apply reversed seq to B
    for w in seq: ops(A, w); ops(A1, w)
    okB = fgen(B) == fgen(B1)
    okA = fgen(A) == fgen(A1)
    for w in seq[::-1]: ops(B, w); ops(B1, w)
    print(seq, 'A iso', okA, 'B untouched', okB, 'after B edits: A', fgen(A)==fgen(A1), 'B', fgen(B)==fgen(B1), 'scopes', scopes_ok(B)[:2], scopes_ok(A)[:2])
