import sys, random, pickle, shutil, re, logging
from pathlib import Path
import networkx as nx
import loki.jit_build
W = sys.modules['loki.jit_build.workqueue']; O = sys.modules['loki.jit_build.obj']; LB = sys.modules['loki.jit_build.lib']; C = sys.modules['loki.jit_build.compiler']
from loki.jit_build import Lib, Builder, Obj
seed = int(sys.argv[1]); workers = int(sys.argv[2])
rng = random.Random(seed)
root = Path('/tmp/scratch/c44'); shutil.rmtree(root, ignore_errors=True); (root/'src').mkdir(parents=True); (root/'build').mkdir()
n = rng.randint(3, 8)
deps = {i: sorted(rng.sample(range(i), rng.randint(0, min(i, 3)))) for i in range(n)}
for i in range(n):
    uses = ''.join(f'  use m{j}\n' for j in deps[i])
    (root/'src'/f'm{i}.f90').write_text(f'module m{i}\n{uses}  integer :: v{i}\nend module m{i}\n')
EVENTS = []
def sim_execute(args, **kw):
    args = [str(a) for a in args]
    if args[0] == 'ar' or '-c' not in args:
        EVENTS.append(('link', tuple(Path(a).name for a in args if a.endswith('.o')))); return
    src = Path(args[-1]); tgt = Path(args[args.index('-o')+1]); moddir = Path([a for a in args if a.startswith('-J')][0][2:])
    text = src.read_text()
    for u in re.findall(r'^\s*use\s+(\w+)', text, re.M):
        if not (moddir/f'{u}.mod').exists():
            EVENTS.append(('fail', src.stem, u))
            raise RuntimeError(f'Fatal Error: Cannot open module file {u}.mod')
    for m in re.findall(r'^module\s+(\w+)', text, re.M): (moddir/f'{m}.mod').write_text('x')
    tgt.write_text('o'); EVENTS.append(('compiled', src.stem))
class SimFuture:
    def __init__(s, ex, payload): s.ex, s.payload, s.done_, s.res, s.exc = ex, payload, False, None, None
    def run(s):
        fn, a, k = pickle.loads(s.payload)
        try: s.res = fn(*a, **k)
        except BaseException as e: s.exc = e
        s.done_ = True
    def result(s, timeout=None):
        while not s.done_: s.ex.step()
        if s.exc: raise s.exc
        return s.res
    def exception(s, timeout=None):
        s_ = s
        while not s.done_: s.ex.step()
        return s.exc
class SimExecutor:
    def __init__(s, max_workers=None): s.pending = []
    def __enter__(s): return s
    def __exit__(s, *a):
        while s.pending: s.step()
    def submit(s, fn, *a, **k):
        f = SimFuture(s, pickle.dumps((fn, a, k))); s.pending.append(f); return f
    def step(s):
        f = s.pending.pop(rng.randrange(len(s.pending))); f.run()
class SimManager:
    def Queue(s): return None
class NoListener:
    def __init__(s,*a,**k): pass
    def start(s): pass
    def stop(s): pass
W.ProcessPoolExecutor = SimExecutor; W._initialized = True; W.Manager = SimManager; W.QueueListener = NoListener
W.execute = sim_execute; O.execute = sim_execute; C.execute = sim_execute
class NXProxy:
    def __getattr__(s, k): return getattr(nx, k)
    @staticmethod
    def topological_sort(g):
        indeg = dict(g.in_degree()); ready = [x for x in g.nodes if indeg[x] == 0]
        while ready:
            x = ready.pop(rng.randrange(len(ready))); yield x
            for m in g.successors(x):
                indeg[m] -= 1
                if indeg[m] == 0: ready.append(m)
LB.nx = NXProxy()
logger = logging.getLogger('x')
b = Builder(source_dirs=root/'src', build_dir=root/'build', workers=workers, logger=logger)
objs = [Obj(source_path=root/'src'/f'm{i}.f90') for i in rng.sample(range(n), n)]
lib = Lib(name='t', objs=objs, shared=False)
try:
    lib.build(builder=b, logger=logger)
    print('OK', deps, EVENTS[-1])
except Exception as e:
    print('BUILD FAILED', type(e).__name__, e, deps, [e for e in EVENTS if e[0]=='fail'])
