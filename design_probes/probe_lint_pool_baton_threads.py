import sys, gc, pickle, random, threading, hashlib
sys.path.insert(0,"/repo/lint_rules")
from pathlib import Path
import loki.jit_build
import loki.lint.linter as L
W = sys.modules["loki.jit_build.workqueue"]
from loki.lint import lint_files, GenericHandler, Reporter
import lint_rules.ifs_coding_standards_2011 as rules

seed = int(sys.argv[1]); nworkers = int(sys.argv[2]); mutant = len(sys.argv) > 3
rng = random.Random(seed)
EVENTS = []
class Sim:
    def __init__(self):
        self.current = None   # task holding baton, None = main
        self.main_sem = threading.Semaphore(0)
    def yield_point(self, tag):
        t = self.current
        if t is None: return          # main thread: no preemption here
        EVENTS.append((t.tid, tag))
        # give baton back to scheduler (main), wait to be resumed
        self.current = None
        self.main_sem.release()
        t.sem.acquire()
SIM = Sim()
REG = {}
class Proxy:
    def __init__(self, oid): self.oid = oid
    @property
    def obj(self): return REG[self.oid]
class ListProxy(Proxy):
    def __reduce__(self): return (ListProxy, (self.oid,))
    def append(self, x): SIM.yield_point('list.append'); self.obj.append(pickle.dumps(x))
    def __iter__(self): SIM.yield_point('list.iter'); return iter([pickle.loads(b) for b in self.obj])
    def __len__(self): return len(self.obj)
    def __add__(self, other): SIM.yield_point('list.get'); return [pickle.loads(b) for b in self.obj] + list(other)
class DictProxy(Proxy):
    def __reduce__(self): return (DictProxy, (self.oid,))
    def __setitem__(self, k, v):
        SIM.yield_point('dict.set')
        if isinstance(v, list) and not isinstance(v, ListProxy):  # plain list stored by value
            v = pickle.dumps(v)
        else: v = pickle.dumps(v)
        self.obj[pickle.dumps(k)] = v
    def __getitem__(self, k): SIM.yield_point('dict.get'); return pickle.loads(self.obj[pickle.dumps(k)])
    def items(self): SIM.yield_point('dict.items'); return [(pickle.loads(k), pickle.loads(v)) for k, v in self.obj.items()]
class SimManager:
    def _new(self, cls, init):
        oid = len(REG); REG[oid] = init; return cls(oid)
    def dict(self): return self._new(DictProxy, {})
    def list(self, it=()):
        p = self._new(ListProxy, []); [p.obj.append(pickle.dumps(x)) for x in it]; return p
    def Queue(self): return self._new(ListProxy, [])
class Task:
    n = 0
    def __init__(self, ex, payload):
        self.ex, self.payload = ex, payload; self.state = 'queued'; self.res = self.exc = None
        self.tid = Task.n; Task.n += 1; self.sem = threading.Semaphore(0)
    def body(self):
        self.sem.acquire()
        fn, a, k = pickle.loads(self.payload)
        try: self.res = pickle.loads(pickle.dumps(fn(*a, **k)))
        except BaseException as e: self.exc = e
        self.state = 'done'; EVENTS.append((self.tid, 'end')); self.ex.done_order.append(self)
        SIM.current = None; SIM.main_sem.release()
    def result(self, timeout=None):
        while self.state != 'done': self.ex.step()
        if self.exc: raise self.exc
        return self.res
class SimExecutor:
    def __init__(self, max_workers=None): self.n = max_workers; self.queue = []; self.running = []; self.done_order = []
    def __enter__(self): return self
    def __exit__(self, *a):
        while self.queue or self.running: self.step()
    def submit(self, fn, *a, **k):
        t = Task(self, pickle.dumps((fn, a, k))); self.queue.append(t)
        if rng.random() < 0.3 and (self.running or self.queue): self.step()
        return t
    def step(self):
        cands = list(self.running)
        if self.queue and len(self.running) < self.n: cands.append('start')
        c = cands[rng.randrange(len(cands))]
        if c == 'start':
            t = self.queue.pop(0); t.state = 'running'; self.running.append(t)
            t.thread = threading.Thread(target=t.body, daemon=True); t.thread.start(); EVENTS.append((t.tid, 'start'))
        else: t = c
        SIM.current = t; t.sem.release(); SIM.main_sem.acquire()
        if t.state == 'done': self.running.remove(t)
def sim_as_completed(fs):
    fs = list(fs); ex = fs[0].ex; seen = 0
    while seen < len(fs):
        while len(ex.done_order) <= seen: ex.step()
        yield ex.done_order[seen]; seen += 1
W.ProcessPoolExecutor = SimExecutor; W._initialized = True; W.Manager = SimManager
class NoListener:
    def __init__(self,*a,**k): pass
    def start(self): pass
    def stop(self): pass
W.QueueListener = NoListener; L.Manager = SimManager; L.as_completed = sim_as_completed
if mutant:
    def add_file_report(self, file_report):
        for handler, reports in self.handlers_reports.items():
            self.handlers_reports[handler] = reports + [handler.handle(file_report)]   # read-modify-write
    Reporter.add_file_report = add_file_report
    def init_parallel(self, manager):
        pr = manager.dict()
        for h, r in self.handlers_reports.items(): pr[h] = list(r)
        self.handlers_reports = pr
    Reporter.init_parallel = init_parallel
SINK = []
class H(GenericHandler):
    def __init__(self, basedir): super().__init__(basedir)
    def __eq__(self, o): return type(o) is type(self)
    def __hash__(self): return 1
    def handle(self, fr):
        return (str(self.get_relative_filename(fr.filename)), [(rr.rule.__name__, [ (p.msg, self.format_location(fr.filename, p.location)) for p in rr.problem_reports]) for rr in fr.reports])
    def output(self, reports): SINK.append(list(reports))
basedir = Path('/repo/loki/tests/sources')
config = {'basedir': str(basedir), 'include': ['projA/**/*.f90','projA/**/*.F90'], 'max_workers': nworkers}
import logging; logging.disable(logging.CRITICAL)
n = lint_files(rules, config, handlers=[H(basedir)])
rep = SINK[-1]
print('checked', n, 'reports', len(rep), 'files', len({r[0] for r in rep}), 'digest', hashlib.sha1(repr(EVENTS).encode()).hexdigest()[:10], 'events', len(EVENTS), 'content', hashlib.sha1(repr(sorted(rep)).encode()).hexdigest()[:10])
