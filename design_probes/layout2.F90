module lay2
  use :: other_mod, only: a_t
  use, non_intrinsic :: third_mod
  implicit none
contains
  subroutine s(x)
    use   fourth_mod   ,   only : f4 , g4=>h4
    integer :: x
    call f4(x)
  end subroutine s
end module lay2
