import random, sys, types
import networkx as nx
import loki.batch.scheduler as S
import loki.batch.sfilter as F
from loki.batch import Scheduler, Transformation, ProcedureItem

rng = random.Random(int(sys.argv[1]))
def sim_set(it=()):
    l = list(dict.fromkeys(it)); rng.shuffle(l); return l
S.set = sim_set

class NXProxy:
    def __getattr__(self, k): return getattr(nx, k)
    @staticmethod
    def topological_sort(g):
        indeg = {n: d for n, d in g.in_degree()}
        ready = [n for n in g.nodes if indeg[n] == 0]
        while ready:
            n = ready.pop(rng.randrange(len(ready)))
            yield n
            for m in g.successors(n):
                indeg[m] -= 1
                if indeg[m] == 0: ready.append(m)
F.nx = NXProxy()

class Probe(Transformation):
    def __init__(self): self.log = []
    def transform_subroutine(self, routine, **kw):
        self.log.append((routine.name, kw['role'], tuple(kw['targets'])))
s = Scheduler(paths=['proj'], config={'default': {'role':'kernel','expand':True,'strict':True}, 'routines': {'driver': {'role':'driver'}}}, seed_routines=['driver'])
p = Probe(); s.process(p)
print(p.log)
print([i.name for i in s.items])
