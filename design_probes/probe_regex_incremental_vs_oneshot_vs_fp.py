import sys, random, itertools
from pathlib import Path
from loki import Sourcefile, config
from loki.frontend import REGEX, FP, RegexParserClass as R
from loki.ir import nodes as ir, FindNodes, FindInlineCalls
from loki import Module, Subroutine
from loki.program_unit import ProgramUnit

def summary(unit):
    out = {}
    def units(u, depth=0):
        kind = 'module' if isinstance(u, Module) else ('function' if getattr(u,'is_function',False) else 'subroutine')
        imports = []
        calls = []
        tdefs = []
        intfs = []
        for sec in (u.spec, getattr(u, 'body', None)):
            if sec is None: continue
            for i in FindNodes(ir.Import).visit(sec):
                imports.append((str(i.module).lower(), tuple(sorted(str(s).lower() for s in i.symbols or ())), tuple(sorted((str(a).lower(), str(b).lower()) for a,b in (i.rename_list or ())))))
            for c in FindNodes(ir.CallStatement).visit(sec):
                calls.append(str(c.name).lower())
            for t in FindNodes(ir.TypeDef).visit(sec):
                tdefs.append(t.name.lower())
            for t in FindNodes(ir.Interface).visit(sec):
                intfs.append(tuple(sorted(str(s).lower() for s in t.symbols)))
        return (kind, u.name.lower(), tuple(sorted(imports)), tuple(sorted(set(calls))), tuple(sorted(tdefs)), tuple(sorted(intfs)),
                tuple(units(c, depth+1) for c in u.subroutines))
    return tuple(units(u) for u in unit.modules + unit.routines) if isinstance(unit, Sourcefile) else units(unit)

p = Path(sys.argv[1])
rng = random.Random(int(sys.argv[2]))
fp = Sourcefile.from_file(p, frontend=FP)
one = Sourcefile.from_file(p, frontend=REGEX)
inc = Sourcefile.from_file(p, frontend=REGEX, parser_classes=R.ProgramUnitClass)
classes = [R.InterfaceClass, R.ImportClass, R.TypeDefClass, R.DeclarationClass, R.CallClass, R.PragmaClass, R.ProgramUnitClass]
hist = []
for step in range(8):
    targets = [inc] + list(inc.modules) + list(inc.all_subroutines)
    t = rng.choice(targets)
    cls = R.EmptyClass
    for c in rng.sample(classes, rng.randint(1,3)): cls |= c
    hist.append((getattr(t,'name',None) or 'FILE', str(cls)))
    t.make_complete(frontend=REGEX, parser_classes=cls)
inc.make_complete(frontend=REGEX, parser_classes=R.AllClasses)
s_fp, s_one, s_inc = summary(fp), summary(one), summary(inc)
print('one==inc', s_one == s_inc, 'fp==one', s_fp == s_one)
if s_fp != s_one:
    print('FP ', s_fp); print('ONE', s_one)
if s_one != s_inc:
    print(hist); print('ONE', s_one); print('INC', s_inc)
