import sys
from loki.batch import Scheduler
try:
    s = Scheduler(paths=['proj2'], config={'default': {'role':'kernel','expand':True,'strict':True}, 'routines': {'driver': {'role':'driver'}}}, seed_routines=['driver'], full_parse=False)
    print(sorted(i.name for i in s.items))
except Exception as e:
    print('EXC', type(e).__name__, e)
