import sys, re, shutil
from pathlib import Path
import tomli_w
from click.testing import CliRunner
from loki.cli.loki_transform import cli
from loki import Sourcefile
projA = Path('/repo/loki/tests/sources/projA')
tmp = Path('/tmp/scratch/c24'); shutil.rmtree(tmp, ignore_errors=True); tmp.mkdir()
config = {
 'default': {'mode':'idem','role':'kernel','expand':True,'strict':True,'disable':['abort'],'enable_imports':True},
 'routines': {'driverA': {'role':'driver'}, 'another_l1': {'role':'driver'}},
 'transformations': {
   'Idem': {'classname':'IdemTransformation','module':'loki.transformations'},
   'ModuleWrap': {'classname':'ModuleWrapTransformation','module':'loki.transformations.build_system','options':{'module_suffix':'_MOD'}},
   'Dependency': {'classname':'DependencyTransformation','module':'loki.transformations.build_system','options':{'suffix':'_LOKI','module_suffix':'_MOD'}},
 },
 'pipelines': {'idem': {'transformations': ['Idem','ModuleWrap','Dependency']}}
}
(tmp/'my.config').write_text(tomli_w.dumps(config))
writes = []
orig = Sourcefile.to_file.__func__
def rec(cls, source, path):
    writes.append(str(path)); return orig(cls, source, path)
Sourcefile.to_file = classmethod(rec)
common = ['--mode=idem', f'--config={tmp}/my.config','--frontend=fp', f'--source={projA}', f'--build={tmp}/build', f'--header={projA}/module/header_mod.f90']
(tmp/'build').mkdir()
r = CliRunner().invoke(cli, ['plan', *common, f'--plan-file={tmp}/plan.cmake'])
print('plan exit', r.exit_code, r.exception)
print('writes during plan', writes)
r = CliRunner().invoke(cli, ['convert', *common])
print('convert exit', r.exit_code, r.exception)
plan = (tmp/'plan.cmake').read_text()
lists = {m.group(1): m.group(2).split() for m in re.finditer(r'set\( (\w+) \n(.*?)\n   \)', plan, re.S)}
for k,v in lists.items(): print(k, [Path(x).name for x in v])
print('written', sorted(Path(w).name for w in writes))
print('APPEND == written:', sorted(lists['LOKI_SOURCES_TO_APPEND']) == sorted(writes))
