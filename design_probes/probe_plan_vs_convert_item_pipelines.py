import sys, shutil, re
from pathlib import Path
from loki import Scheduler, SchedulerConfig, ProcessingStrategy, Sourcefile
from loki.batch import Pipeline
from loki.transformations.dependency import DuplicateKernel, RemoveKernel
from loki.transformations.build_system import FileWriteTransformation, ModuleWrapTransformation, DependencyTransformation
drv = """
subroutine driver(NLON, NB, FIELD1)
    use kernel_mod, only: kernel
    implicit none
    INTEGER, INTENT(IN) :: NLON, NB
    integer :: b
    integer, intent(inout) :: field1(nlon, nb)
    do b=1,nb
        call kernel(nlon, field1(:,b))
    end do
end subroutine driver
"""
krn = """
module kernel_mod
    implicit none
contains
    subroutine kernel(klon, field1)
        integer, intent(in) :: klon
        integer, intent(inout) :: field1(klon)
        call leaf(klon, field1)
    end subroutine kernel
end module kernel_mod
"""
leaf = """
subroutine leaf(klon, field1)
    integer, intent(in) :: klon
    integer, intent(inout) :: field1(klon)
    field1(1) = 0
end subroutine leaf
"""
config = {'default': {'mode':'idem','role':'kernel','expand':True,'strict':False}, 'routines': {'driver': {'role':'driver','expand':True}}}
def mk(d):
    shutil.rmtree(d, ignore_errors=True); (d/'src').mkdir(parents=True); (d/'build').mkdir()
    (d/'src'/'driver.F90').write_text(drv); (d/'src'/'kernel_mod.F90').write_text(krn); (d/'src'/'leaf.F90').write_text(leaf)
writes = []
orig = Sourcefile.to_file.__func__
Sourcefile.to_file = classmethod(lambda cls, source, path: (writes.append(Path(path).name), orig(cls, source, path))[1])
which = sys.argv[1]
def pipe():
    if which == 'dup': return Pipeline(classes=(DuplicateKernel, FileWriteTransformation), duplicate_kernels=('kernel',), duplicate_suffix='_new', duplicate_subgraph=len(sys.argv)>2)
    if which == 'rem': return Pipeline(classes=(RemoveKernel, FileWriteTransformation), remove_kernels=('leaf',))
    if which == 'dep': return Pipeline(classes=(ModuleWrapTransformation, DependencyTransformation, FileWriteTransformation), module_suffix='_mod', suffix='_test')
    if which == 'dupdep': return Pipeline(classes=(DuplicateKernel, ModuleWrapTransformation, DependencyTransformation, FileWriteTransformation), duplicate_kernels=('kernel',), duplicate_suffix='_new', module_suffix='_mod', suffix='_test')
root = Path('/tmp/scratch/c24b')
mk(root/'p'); mk(root/'c')
sp = Scheduler(paths=[root/'p'/'src'], config=SchedulerConfig.from_dict(config), full_parse=False, output_dir=root/'p'/'build')
sp.process(pipe(), proc_strategy=ProcessingStrategy.PLAN)
sp.write_cmake_plan(filepath=root/'p'/'plan.cmake', rootpath=root/'p')
plan = {k: sorted(Path(x).name for x in v.split()) for k, v in re.findall(r'set\(\s*(\w+)\s*(.*?)\s*\)', (root/'p'/'plan.cmake').read_text(), re.S)}
wp = list(writes); writes.clear()
sc = Scheduler(paths=[root/'c'/'src'], config=SchedulerConfig.from_dict(config), full_parse=True, output_dir=root/'c'/'build')
sc.process(pipe())
print('plan writes:', wp)
for k,v in plan.items(): print(k, v)
print('convert writes:', sorted(writes))
print('APPEND==writes', plan['LOKI_SOURCES_TO_APPEND'] == sorted(writes))
print('items', sorted(i.name for i in sc.items))
print('cache keys ok', all(k == v.name.lower() for k, v in sc.item_factory.item_cache.items()))
