"""Run one simulated execution; replay files; minimiser."""
import json
import os
import sys
import time
import traceback

from sim.kernel import Choices, H, HarnessError, Run
from sim.registry import get_engine


def repo_path():
    return os.environ.get('VERIF_REPO', '/repo')


def bootstrap():
    """Make ``import loki`` resolve to the tree under test; keep cwd neutral."""
    rp = repo_path()
    if rp not in sys.path:
        sys.path.insert(0, rp)
    lr = os.path.join(rp, 'lint_rules')
    if lr not in sys.path:
        sys.path.insert(1, lr)
    os.environ.setdefault('LOKI_VERIF', '1')
    from sim import pool  # pylint: disable=import-outside-toplevel
    pool.install_global_seams()
    sys.setrecursionlimit(max(sys.getrecursionlimit(), 5000))


def run_seed_of(seed, prop, i):
    return H('run', seed, prop, i)


def gen_scenario(prop, run_seed, tier):
    eng = get_engine(prop)
    g = Choices(H('gen', run_seed))
    return eng.gen(g, prop, tier)


def exec_scenario(prop, scenario, run_seed, sched):
    eng = get_engine(prop)
    run = Run(prop, run_seed, sched, scenario)
    try:
        eng.execute(scenario, run)
    finally:
        run.cleanup()
    return run


def fresh_run(prop, run_seed, tier):
    scenario = gen_scenario(prop, run_seed, tier)
    return exec_scenario(prop, scenario, run_seed, Choices(H('sched', run_seed)))


def make_replay(prop, run, tier, violation):
    eng = get_engine(prop)
    return {
        'property': prop,
        'engine': eng.name,
        'tier': tier,
        'run_seed': run.run_seed,
        'pythonhashseed': os.environ.get('PYTHONHASHSEED', 'random'),
        'scenario': run.scenario,
        'choices': run.sched.log,
        'violation': violation,
        'event_digest': run.digest(),
        'n_events': len(run.events),
    }


def replay_file(path):
    """Replay a file in *this* interpreter.  Returns (replay dict, Run)."""
    with open(path) as f:
        rp = json.load(f)
    run = exec_scenario(rp['property'], rp['scenario'], rp['run_seed'], Choices(replay=rp['choices']))
    return rp, run


def same_violation(run, cls):
    return any(v.cls == cls for v in run.violations)


def trim(choices):
    """Drop trailing zero answers (an exhausted trace answers 0)."""
    n = len(choices)
    while n and choices[n - 1][2] == 0:
        n -= 1
    return [list(c) for c in choices[:n]]


def minimise(rp, budget_s=60.0, log=None):
    """
    Delta-debug the workload (engine-provided one-step reductions), the faults
    (part of the scenario) and the choice trace, keeping a candidate iff the
    same violation class reproduces.
    """
    prop = rp['property']
    cls = rp['violation']['class']
    eng = get_engine(prop)
    t_end = time.time() + budget_s
    scen = rp['scenario']
    choices = rp['choices']
    tried = 0

    def test(s, c):
        nonlocal tried
        tried += 1
        try:
            r = exec_scenario(prop, s, rp['run_seed'], Choices(replay=c))
        except HarnessError:
            return None
        except Exception:  # pylint: disable=broad-except
            return None
        return r if same_violation(r, cls) else None

    base = test(scen, choices)
    if base is None:
        raise HarnessError(f'violation {cls} does not reproduce at the start of minimisation')
    choices = base.sched.log
    best_run = base
    improved = True
    while improved and time.time() < t_end:
        improved = False
        for cand in eng.shrink(scen, prop):
            if time.time() >= t_end:
                break
            r = test(cand, choices)
            if r is not None:
                scen, choices, best_run = cand, r.sched.log, r
                improved = True
                break
    # choice trace: zero a suffix (bisect on the kept prefix length; the tail of
    # an exhausted trace is answered with 0 on replay)
    choices = trim(choices)
    lo, hi = 0, len(choices)
    while lo < hi and time.time() < t_end:
        mid = (lo + hi) // 2
        r = test(scen, choices[:mid])
        if r is not None:
            hi = mid
            best_run = r
        else:
            lo = mid + 1
    choices = trim(choices[:hi])
    # lower single choices to 0
    i = 0
    while i < len(choices) and time.time() < t_end:
        if choices[i][2] != 0:
            c2 = [list(x) for x in choices]
            c2[i][2] = 0
            r = test(scen, c2)
            if r is not None:
                choices, best_run = trim(c2), r
        i += 1
    r = test(scen, choices)
    fallback = False
    if r is None:
        # state carried from one run to the next inside this interpreter made an intermediate candidate pass:
        # fall back to the trace as recorded (the caller verifies the result in a fresh interpreter anyway)
        scen, choices, fallback = rp['scenario'], base.sched.log, True
        r = test(scen, choices) or base
    best_run = r
    v = next(v for v in best_run.violations if v.cls == cls)
    out = dict(rp)
    out.update({'scenario': scen, 'choices': choices, 'violation': v.to_json(),
                'event_digest': best_run.digest(), 'n_events': len(best_run.events),
                'minimised': {'candidates_tried': tried, 'choices_before': len(rp['choices']),
                              'choices_after': len(choices), 'fell_back_to_recorded_trace': fallback}})
    if log:
        log(f'minimised: {tried} candidates, choices {len(rp["choices"])} -> {len(choices)}')
    return out


def format_exc():
    return traceback.format_exc()
