"""
regexworld -- C19: regex discovery equals the full parse and is independent of
the order/combination of incremental parser-class requests.

Decided by simulation (history clause): one lazily parsed source file is shared
by several parties (file item, module items, procedure items -- in the scheduler
these issue ``make_complete(frontend=REGEX, parser_classes=...)`` on demand, in
item-discovery order, which is environment-decided).  The simulator owns the
sequence of requests: target (file / module / routine / internal routine) and
class subset.  Oracle: confluence with a one-shot parse.

Only sampled (program clause): one-shot REGEX summary == FP summary on generated
layouts.  That is input generation, not simulation; it is reported separately.
"""
from sim.engines.base import Engine
from sim.kernel import HarnessError

CLASSES = ('InterfaceClass', 'ImportClass', 'TypeDefClass', 'DeclarationClass', 'CallClass', 'PragmaClass',
           'ProgramUnitClass')


# ---------------------------------------------------------------------------
# source generator with layout variations
# ---------------------------------------------------------------------------

def gen_source(g):
    L = {'cont': g.flip('cont', 1, 3), 'semi': g.flip('semi', 1, 3), 'inline_if': g.choose('inlif', 8),
         'kw_comment': g.flip('kwc', 1, 2), 'kw_string': g.flip('kws', 1, 2), 'label': g.flip('label', 1, 4),
         'upper': g.flip('upper', 1, 3), 'use_colons': g.flip('usecolons', 1, 6),
         'rename': g.flip('rename', 1, 2), 'iface': g.flip('iface', 1, 2), 'binding': g.flip('binding', 1, 2),
         'internal': g.flip('internal', 1, 2), 'second_module': g.flip('mod2', 1, 3), 'free': g.flip('free', 1, 2),
         'func': g.flip('func', 1, 3), 'ncalls': g.randint('ncalls', 1, 4), 'prefix': g.flip('prefix', 1, 4),
         'generic_binding': g.flip('genbind', 1, 4), 'shadow': g.flip('shadow', 1, 4)}
    return L


def render(L):
    def kw(s):
        return s.upper() if L['upper'] else s
    out = []
    out += [f'{kw("module")} alpha_mod',
            f'  {kw("use")} kinds_mod, {kw("only")}: jprb, jpim']
    if L['rename']:
        out.append(f'  {kw("use")} tools_mod, {kw("only")}: loc_scale => scale, shift')
    else:
        out.append(f'  {kw("use")} tools_mod, {kw("only")}: scale, shift')
    if L['use_colons']:
        out.append(f'  {kw("use")} :: extra_mod, {kw("only")}: extra_t')
    out.append(f'  {kw("use")} plain_mod')
    out.append(f'  {kw("implicit none")}')
    if L['kw_comment']:
        out.append('  ! call ghost_routine(x) -- use ghost_mod, only: nothing; subroutine fake(a)')
    out += ['  type base_t', '    real(kind=jprb) :: v']
    if L['binding']:
        out += ['  contains', '    procedure :: apply => base_apply']
        if L['generic_binding']:
            out += ['    procedure :: apply_two => base_apply_two', '    generic :: both => apply, apply_two']
    out += ['  end type base_t']
    if L['iface']:
        out += ['  interface work', '    module procedure work_r, work_i', '  end interface work']
    out.append(f'{kw("contains")}')
    if L['binding']:
        out += ['  subroutine base_apply(this, x)', '    class(base_t), intent(inout) :: this',
                '    real(kind=jprb), intent(in) :: x', '    this%v = x', '  end subroutine base_apply']
        if L['generic_binding']:
            out += ['  subroutine base_apply_two(this, x, y)', '    class(base_t), intent(inout) :: this',
                    '    real(kind=jprb), intent(in) :: x, y', '    this%v = x + y', '  end subroutine base_apply_two']
    if L['iface']:
        out += ['  subroutine work_r(x)', '    real(kind=jprb), intent(inout) :: x', '    x = x + 1.0_jprb',
                '  end subroutine work_r', '  subroutine work_i(i)', '    integer(kind=jpim), intent(inout) :: i',
                '    i = i + 1', '  end subroutine work_i']
    if L.get('shadow'):
        # a module procedure whose name is re-used by an internal procedure further down
        out += ['  subroutine util(k)', '    use io_mod, only: io_x', '    integer(kind=jpim), intent(inout) :: k',
                '    call util_target(k)', '  end subroutine util']
    pre = 'pure ' if L['prefix'] else ''
    out += [f'  {pre}{kw("subroutine")} driver(n, a, b)',
            f'    {kw("use")} helper_mod, {kw("only")}: helper_one, helper_two',
            '    integer(kind=jpim), intent(in) :: n', '    real(kind=jprb), intent(inout) :: a(n), b(n)',
            '    type(base_t) :: obj', '    integer(kind=jpim) :: i']
    if L['kw_string']:
        out.append("    character(len=64) :: msg = 'call phantom(x); use nowhere_mod'")
    calls = ['call helper_one(n, a)', 'call helper_two(n, &\n      &  a, b)' if L['cont'] else 'call helper_two(n, a, b)',
             'call shift(a)', f'call {"loc_scale" if L["rename"] else "scale"}(b)'][:L['ncalls']]
    body = []
    if L['semi'] and len(calls) >= 2:
        body.append(f'    {calls[0]}; {calls[1]}')
        rest = calls[2:]
    else:
        rest = calls
    for c in rest:
        body.append(f'    {c}')
    if L['inline_if']:
        # inline IF with conditions of increasing nesting depth, a parenthesis inside a character constant,
        # no blanks at all
        body.append('    ' + {1: 'if (n > 0) call inline_target(a)',
                              2: 'if (abs(a(1)) > 0.) call inline_target(a)',
                              3: 'if (abs(a(min(n, 1))) > 0.) call inline_target(a)',
                              4: 'if (abs(a(min(n, max(1, n)))) >= 0.) call inline_target(a)',
                              5: "if (')' /= '(') call inline_target(a)",
                              6: 'IF(n>0)CALL inline_target(a)',
                              7: 'if ((n > 0) .and. (abs(b(1)) > 0.)) call inline_target(a)'}[L['inline_if']])
    if L['label']:
        body.append('10  call labelled_target(b)')
    if L['binding']:
        body.append('    call obj%apply(a(1))')
    if L['iface']:
        body.append('    call work(a(1))')
    inner = 'util' if L.get('shadow') else 'inner'
    if L['internal'] and not L.get('shadow'):
        body.append(f'    call {inner}(i)')
    if L['func']:
        body.append('    a(1) = fvalue(b(1))')
    out += body
    if L['internal']:
        out += ['  contains', f'    subroutine {inner}(k)', '      use stats_mod, only: stats_x',
                '      integer(kind=jpim), intent(inout) :: k',
                '      call deep_target(k)', f'    end subroutine {inner}']
    out += [f'  {kw("end subroutine")} driver']
    if L['func']:
        out += ['  function fvalue(x) result(r)', '    real(kind=jprb), intent(in) :: x', '    real(kind=jprb) :: r',
                '    r = x', '    call func_target(r)', '  end function fvalue']
    out += [f'{kw("end module")} alpha_mod', '']
    if L['second_module']:
        out += ['module beta_mod', '  use alpha_mod, only: base_t, driver', '  implicit none', 'contains',
                '  subroutine beta(n, a, b)', '    integer, intent(in) :: n', '    real, intent(inout) :: a(n), b(n)',
                '    call driver(n, a, b)', '  end subroutine beta', 'end module beta_mod', '']
    if L['free']:
        out += ['subroutine free_one(x)', '  use alpha_mod, only: driver', '  real, intent(inout) :: x(1)',
                '  call driver(1, x, x)', '  call ext_free(x)', 'end subroutine free_one', '']
    return '\n'.join(out)


class RegexEngine(Engine):
    name = 'regexworld'
    props = ('C19',)
    real = ('loki.frontend.regex (pattern registry, parse_regex_source)', 'ProgramUnit.make_complete / '
            'Sourcefile.make_complete incremental re-parse', 'FP frontend (reference of the sampled program clause)')
    stubs = ('nothing is stubbed; the simulator owns the sequence, targets and class subsets of the incremental '
             're-parse requests',)
    fault_kinds = ('requests_issued', 'nested_target_requests')
    probes = ('histories', 'fp_comparisons', 'layouts_with_continuation', 'layouts_with_semicolon',
              'layouts_with_inline_if', 'layouts_with_keyword_comment', 'layouts_with_label', 'repeat_subset_requests',
              'unit_identity_changed')
    nontrivial_rule = ('a history is non-trivial if it issued >= 2 requests with different class subsets to >= 2 '
                       'different targets; distinct = digest of (layout, request history)')
    hashseed_independent = True

    def setup(self):
        import loki  # pylint: disable=import-outside-toplevel,unused-import
        import logging  # pylint: disable=import-outside-toplevel
        from loki.logging import default_logger  # pylint: disable=import-outside-toplevel
        default_logger.setLevel(logging.CRITICAL + 1)

    def gen(self, g, prop, tier):
        layout = gen_source(g)
        n = g.randint('nreq', 1, 10 if tier == 'quick' else 16)
        reqs = []
        for _ in range(n):
            k = g.randint('ncls', 1, 3)
            reqs.append({'target': g.choose('target', 8), 'classes': sorted(g.sample('cls', list(CLASSES), k))})
        return {'layout': layout, 'requests': reqs,
                'initial': g.pick('initial', [['ProgramUnitClass'], ['ProgramUnitClass'], ['TypeDefClass'],
                                              ['ProgramUnitClass', 'ImportClass']]),
                'compare_fp': g.flip('cmpfp', 1, 3)}

    def describe(self, scenario):
        return {'source': render(scenario['layout']).splitlines(), 'requests': scenario['requests'],
                'initial': scenario['initial']}

    def shrink(self, scenario, prop):
        for i in range(len(scenario['requests'])):
            c = self.clone(scenario)
            del c['requests'][i]
            yield c
        for i, r in enumerate(scenario['requests']):
            if len(r['classes']) > 1:
                for j in range(len(r['classes'])):
                    c = self.clone(scenario)
                    del c['requests'][i]['classes'][j]
                    yield c
        for k, v in scenario['layout'].items():
            if v is True or (isinstance(v, int) and not isinstance(v, bool) and v > 1):
                c = self.clone(scenario)
                c['layout'][k] = False if v is True else v - 1
                yield c
        if scenario['initial'] != ['ProgramUnitClass']:
            c = self.clone(scenario)
            c['initial'] = ['ProgramUnitClass']
            yield c
        if scenario['compare_fp']:
            c = self.clone(scenario)
            c['compare_fp'] = False
            yield c

    # -- execution ------------------------------------------------------------------
    def execute(self, scenario, run):
        from loki import Sourcefile  # pylint: disable=import-outside-toplevel
        from loki.frontend import REGEX, FP, RegexParserClass as R  # pylint: disable=import-outside-toplevel
        text = render(scenario['layout'])
        run.event('source', text)
        for k in ('cont', 'semi', 'inline_if', 'kw_comment', 'label'):
            if scenario['layout'][k]:
                run.probe({'cont': 'layouts_with_continuation', 'semi': 'layouts_with_semicolon',
                           'inline_if': 'layouts_with_inline_if', 'kw_comment': 'layouts_with_keyword_comment',
                           'label': 'layouts_with_label'}[k])

        def flags(names):
            f = R.EmptyClass
            for n in names:
                f |= getattr(R, n)
            return f

        try:
            one = Sourcefile.from_source(text, frontend=REGEX, parser_classes=R.AllClasses)
            ref = summary(one)
            inc = Sourcefile.from_source(text, frontend=REGEX, parser_classes=flags(scenario['initial']))
        except Exception as e:  # pylint: disable=broad-except
            run.violate('regex-parse-raised', f'the REGEX frontend raised {type(e).__name__}: {str(e)[:160]} on a '
                                              f'valid source file')
            return
        run.probe('histories')
        ids = {}
        seen_reqs = set()
        targets_used = set()
        for step, rq in enumerate(scenario['requests']):
            targets = [('FILE', inc)] + [(path, u) for path, u in walk_units(inc)]
            path, tgt = targets[rq['target'] % len(targets)]
            cls = flags(rq['classes'])
            key = (path, tuple(rq['classes']))
            if key in seen_reqs:
                run.probe('repeat_subset_requests')
            seen_reqs.add(key)
            targets_used.add(path)
            if path.count('/') >= 1:
                run.probe('nested_target_requests')
            for p, u in walk_units(inc):
                ids.setdefault(p, id(u))
            try:
                tgt.make_complete(frontend=REGEX, parser_classes=cls)
            except Exception as e:  # pylint: disable=broad-except
                run.violate('request-raised', f'request {step} ({path}, {rq["classes"]}) raised '
                                              f'{type(e).__name__}: {str(e)[:160]}')
                return
            run.probe('requests_issued')
            run.event('request', step, path, tuple(rq['classes']))
            # identity of existing units is preserved
            for p, u in walk_units(inc):
                if p in ids and ids[p] != id(u):
                    # make_complete documents that existing unit objects stay valid; the property statement
                    # speaks about what is reported, so this is counted, not judged
                    run.probe('unit_identity_changed')
                    ids[p] = id(u)
            # what was asked for is now there: the target's own content of the requested kinds
            if path != 'FILE':
                got = unit_summary(tgt, own_only=True)
                want = find_summary(ref, path)
                if want is None:
                    raise HarnessError(f'unit {path} not in the one-shot parse')
                for kind, names in (('imports', ('ImportClass',)), ('calls', ('CallClass',)),
                                    ('typedefs', ('TypeDefClass',)), ('interfaces', ('InterfaceClass',))):
                    if any(n in rq['classes'] for n in names) and 'ProgramUnitClass' in (rq['classes'] + ['ProgramUnitClass']):
                        if got[kind] != want[kind]:
                            run.violate('request-incomplete', f'after request {step} to {path} with {rq["classes"]}: '
                                                              f'{kind} of the unit are {got[kind]}, a one-shot parse '
                                                              f'finds {want[kind]}')
                            return
        # final request: everything, addressed to the file
        try:
            inc.make_complete(frontend=REGEX, parser_classes=R.AllClasses)
        except Exception as e:  # pylint: disable=broad-except
            run.violate('request-raised', f'final AllClasses request raised {type(e).__name__}: {str(e)[:160]}')
            return
        got = summary(inc)
        if got != ref:
            run.violate('not-confluent', 'after the request history + a final AllClasses request the discovery '
                                         'summary differs from a one-shot parse: ' + first_diff(ref, got))
        run.steps += len(scenario['requests'])
        distinct_cls = {tuple(r['classes']) for r in scenario['requests']}
        run.nontrivial = len(distinct_cls) >= 2 and len(targets_used) >= 2
        # sampled program clause
        if scenario['compare_fp']:
            run.probe('fp_comparisons')
            try:
                fp = Sourcefile.from_source(text, frontend=FP)
            except Exception as e:  # pylint: disable=broad-except
                run.event('fp-failed', type(e).__name__)
                return
            sfp = summary(fp, fp=True)
            sref = summary(one, fp=True)
            if sfp != sref:
                sig = 'regex-vs-fp'
                if scenario['layout']['internal'] and scenario['layout']['second_module'] and \
                        len(sref) < len(sfp):
                    sig = 'regex-vs-fp:internal-procedure-then-second-module'
                run.violate('regex-vs-fp', 'one-shot REGEX discovery differs from the full parse: ' +
                            first_diff(sfp, sref), sig=sig)


# ---------------------------------------------------------------------------
# discovery summary
# ---------------------------------------------------------------------------

def walk_units(sf, prefix=''):
    out = []

    def rec(u, path):
        out.append((path, u))
        for c in getattr(u, 'subroutines', ()):
            rec(c, f'{path}/{c.name.lower()}')
    for u in list(sf.modules) + list(sf.routines):
        rec(u, u.name.lower())
    _ = prefix
    return out


def unit_summary(u, own_only=False, fp=False):
    from loki.ir import nodes as ir, FindNodes  # pylint: disable=import-outside-toplevel
    from loki import Module  # pylint: disable=import-outside-toplevel
    kind = 'module' if isinstance(u, Module) else ('function' if getattr(u, 'is_function', False) else 'subroutine')
    imports, calls, tdefs, intfs = [], [], [], []
    for sec in (u.spec, getattr(u, 'body', None)):
        if sec is None:
            continue
        for i in FindNodes(ir.Import).visit(sec):
            if getattr(i, 'c_import', False):
                continue
            syms = []
            for s in i.symbols or ():
                use_name = getattr(getattr(s, 'type', None), 'use_name', None)
                syms.append((str(s).lower(), str(use_name).lower() if use_name else None))
            imports.append((str(i.module).lower(), tuple(sorted(syms))))
        for c in FindNodes(ir.CallStatement).visit(sec):
            calls.append(str(c.name).lower())
        for t in FindNodes(ir.TypeDef).visit(sec):
            binds = []
            for d in FindNodes(ir.ProcedureDeclaration).visit(t.body):
                for s in d.symbols:
                    bn = getattr(getattr(s, 'type', None), 'bind_names', None) or ()
                    binds.append((str(s).lower(), tuple(sorted(str(b).lower() for b in bn)),
                                  bool(getattr(d, 'generic', False))))
            tdefs.append((t.name.lower(), tuple(sorted(binds))))
        for t in FindNodes(ir.Interface).visit(sec):
            intfs.append(tuple(sorted(str(s).lower() for s in t.symbols)))
    out = {'kind': kind, 'name': u.name.lower(), 'imports': tuple(sorted(imports)), 'calls': tuple(sorted(set(calls))),
           'typedefs': tuple(sorted(tdefs)), 'interfaces': tuple(sorted(intfs))}
    if not own_only:
        out['children'] = tuple(unit_summary(c, fp=fp) for c in u.subroutines)
    _ = fp
    return out


def summary(sf, fp=False):
    return tuple(unit_summary(u, fp=fp) for u in list(sf.modules) + list(sf.routines))


def find_summary(summ, path):
    parts = path.split('/')
    level = summ
    cur = None
    for p in parts:
        cur = next((u for u in level if u['name'] == p), None)
        if cur is None:
            return None
        level = cur.get('children', ())
    return cur


def first_diff(a, b, path=''):
    if isinstance(a, dict) and isinstance(b, dict):
        for k in a:
            if a[k] != b.get(k):
                return first_diff(a[k], b.get(k), f'{path}/{a.get("name", "")}.{k}')
        return f'{path}: {a} != {b}'
    if isinstance(a, tuple) and isinstance(b, tuple) and len(a) == len(b):
        for x, y in zip(a, b):
            if x != y:
                return first_diff(x, y, path)
    return f'{path}: {str(a)[:300]} != {str(b)[:300]}'
