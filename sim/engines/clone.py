"""
cloneworld -- C17: a cloned program unit is an independent, correctly scoped copy.

Two-owner interleaving (DESIGN R5): after ``B = A.clone()`` a generated history
of edit operations is issued, each addressed to A or to B by the simulator, with
GC perturbation.  Oracle = isolation against solo copies: ``A'`` is a freshly
parsed copy that receives exactly the A-addressed operations, ``B'`` a clone of
another fresh parse that receives exactly the B-addressed ones; after every step
fgen(A) == fgen(A') and fgen(B) == fgen(B').  In addition every scoped symbol of
B must live in B's own scope chain.  Everything under test is real code.
"""
import gc

from sim.engines.base import Engine
from sim.kernel import HarnessError

SOURCE = """
module geom_mod
  use kinds_mod, only: jprb, jpim
  use consts_mod, only: pi
  implicit none
  integer(kind=jpim), parameter :: nmax = 10
  real(kind=jprb) :: scale = 1.0_jprb

  type point
    real(kind=jprb) :: x
    real(kind=jprb) :: y(3)
  end type point

  type, extends(point) :: wpoint
    real(kind=jprb) :: w
  contains
    procedure :: area => wpoint_area
  end type wpoint

contains

  subroutine wpoint_area(this, a)
    class(wpoint), intent(in) :: this
    real(kind=jprb), intent(out) :: a
    a = this%x * this%w * pi
  end subroutine wpoint_area

  subroutine shift(n, pts, dx)
    integer(kind=jpim), intent(in) :: n
    type(point), intent(inout) :: pts(n)
    real(kind=jprb), intent(in) :: dx
    integer(kind=jpim) :: i, j
    real(kind=jprb) :: tmp(nmax)
    tmp(:) = 0.0_jprb
    do i = 1, n
      pts(i)%x = pts(i)%x + dx * scale
      do j = 1, 3
        pts(i)%y(j) = pts(i)%y(j) + helper(dx, j)
      end do
    end do
    associate(first => pts(1))
      first%x = first%x + tmp(1)
    end associate
    call norm(n, pts)
  contains
    function helper(d, k) result(r)
      real(kind=jprb), intent(in) :: d
      integer(kind=jpim), intent(in) :: k
      real(kind=jprb) :: r
      r = d * real(k, kind=jprb)
    end function helper
  end subroutine shift

  subroutine norm(n, pts)
    integer(kind=jpim), intent(in) :: n
    type(point), intent(inout) :: pts(n)
    integer(kind=jpim) :: i
    real(kind=jprb) :: s
    interface
      subroutine ext_scale(k, f)
        import :: jpim, jprb
        integer(kind=jpim), intent(in) :: k
        real(kind=jprb), intent(inout) :: f
      end subroutine ext_scale
    end interface
    s = 0.0_jprb
    call ext_scale(n, s)
    do i = 1, n
      s = s + pts(i)%x
    end do
    if (s > 0.0_jprb) then
      do i = 1, n
        pts(i)%x = pts(i)%x / s
      end do
    end if
  end subroutine norm
end module geom_mod
"""

TARGETS = ('module', 'routine', 'sourcefile')
OPS = ('rename_unit', 'rename_member', 'retype_var', 'add_var', 'remove_var', 'append_comment', 'prepend_assign',
       'replace_assign', 'substitute', 'rescope', 'edit_typedef', 'gc', 'retype_module_var', 'edit_internal',
       'update_attrs', 'rename_var', 'edit_iface')


class CloneEngine(Engine):
    name = 'cloneworld'
    props = ('C17',)
    real = ('ProgramUnit.clone / Subroutine.clone / Module.clone / Sourcefile.clone', 'Scope.clone, rescope_symbols, '
            'AttachScopes', 'Transformer, SubstituteExpressions', 'SymbolTable', 'FP frontend, fgen')
    stubs = ('nothing is stubbed; the simulator owns which copy each edit addresses, the order of edits and the GC '
             'points',)
    fault_kinds = ('gc_injected', 'gc_disabled_runs')
    probes = ('ops_on_original', 'ops_on_clone', 'interleavings_switching_owner', 'module_clones', 'routine_clones',
              'sourcefile_clones', 'op_raised_inconclusive')
    nontrivial_rule = ('a history is non-trivial if both copies received >= 1 edit and the owner switched at least '
                       'once; distinct = digest of the (target, owner, operation) history')
    hashseed_independent = True

    def setup(self):
        import loki  # pylint: disable=import-outside-toplevel,unused-import
        import logging  # pylint: disable=import-outside-toplevel
        from loki.logging import default_logger  # pylint: disable=import-outside-toplevel
        default_logger.setLevel(logging.CRITICAL + 1)

    def gen(self, g, prop, tier):
        n = g.randint('nops', 2, 14 if tier == 'quick' else 24)
        ops = []
        for _ in range(n):
            kind = g.weighted('op', [(k, 3) for k in OPS if k != 'gc'] + [('gc', 2)])
            ops.append({'op': kind, 'who': g.pick('who', ['A', 'B']), 'i': g.choose('i', 6), 'j': g.choose('j', 6),
                        'inplace': g.flip('inplace'), 'gen': g.pick('gen', [0, 0, 1, 2])})
        return {'target': g.pick('target', TARGETS), 'ops': ops, 'gc': g.pick('gc', ['off', 'inject', 'default']),
                'clone_kwargs': g.pick('ckw', ['none', 'none', 'name', 'rescope'])}

    def describe(self, scenario):
        return scenario

    def shrink(self, scenario, prop):
        ops = scenario['ops']
        n = len(ops)
        size = max(1, n // 2)
        while size >= 1:
            for i in range(0, n, size):
                c = self.clone(scenario)
                del c['ops'][i:i + size]
                yield c
            if size == 1:
                break
            size //= 2
        for key, val in (('gc', 'default'), ('clone_kwargs', 'none')):
            if scenario[key] != val:
                c = self.clone(scenario)
                c[key] = val
                yield c
        for t in ('routine', 'module'):
            if scenario['target'] != t and TARGETS.index(t) < TARGETS.index(scenario['target']) + 2:
                c = self.clone(scenario)
                c['target'] = t
                yield c

    def execute(self, scenario, run):
        gc_was = gc.isenabled()
        if scenario['gc'] in ('off', 'inject'):
            gc.disable()
            if scenario['gc'] == 'off':
                run.probe('gc_disabled_runs')
        try:
            World(run, scenario).play()
        finally:
            if gc_was:
                gc.enable()


class World:
    def __init__(self, run, scenario):
        from loki import Sourcefile, fgen  # pylint: disable=import-outside-toplevel
        from loki.frontend import FP  # pylint: disable=import-outside-toplevel
        import loki.ir as ir  # pylint: disable=import-outside-toplevel
        from loki.expression import symbols as sym  # pylint: disable=import-outside-toplevel
        self.Sourcefile, self.fgen, self.FP, self.ir, self.sym = Sourcefile, fgen, FP, ir, sym
        self.run, self.scenario = run, scenario

    def parse(self):
        return self.Sourcefile.from_source(SOURCE, frontend=self.FP)

    def pick(self, sf):
        t = self.scenario['target']
        if t == 'sourcefile':
            return sf
        if t == 'module':
            return sf['geom_mod']
        return sf['geom_mod']['shift']

    def do_clone(self, unit):
        kw = {}
        ck = self.scenario['clone_kwargs']
        if ck == 'name' and self.scenario['target'] != 'sourcefile':
            kw['name'] = 'cloned_unit'
        if ck == 'rescope' and self.scenario['target'] != 'sourcefile':
            kw['rescope_symbols'] = True
        return unit.clone(**kw)

    def text(self, unit):
        if self.scenario['target'] == 'sourcefile':
            return unit.to_fortran()
        return self.fgen(unit)

    # -- structure helpers ------------------------------------------------------
    def module_of(self, unit):
        t = self.scenario['target']
        if t == 'sourcefile':
            return unit.modules[0]
        if t == 'module':
            return unit
        return None

    def routines_of(self, unit):
        m = self.module_of(unit)
        if m is not None:
            return list(m.subroutines)
        return [unit]

    def main_routine(self, unit, i):
        rs = self.routines_of(unit)
        return rs[i % len(rs)]

    def scopes_of(self, unit):
        """all Scope objects that belong to the copy ``unit`` (identity set)"""
        from loki.types import Scope  # pylint: disable=import-outside-toplevel
        out = []
        units = []
        m = self.module_of(unit)
        if m is not None:
            units.append(m)
        for r in self.routines_of(unit):
            units.append(r)
            units += list(r.members)
        for u in units:
            out.append(u)
            for sec in ('spec', 'body'):
                s = getattr(u, sec, None)
                if s is not None:
                    out += [n for n in self.ir.FindNodes(self.ir.Node).visit(s) if isinstance(n, Scope)]
        return out

    def symbols_of(self, unit):
        out = []
        m = self.module_of(unit)
        units = ([m] if m is not None else []) + self.routines_of(unit)
        for r in self.routines_of(unit):
            units += list(r.members)
        for u in units:
            for sec in ('spec', 'body'):
                s = getattr(u, sec, None)
                if s is not None:
                    out += list(self.ir.FindVariables(unique=False).visit(s))
        return out

    # -- the history ------------------------------------------------------------------
    def play(self):
        run, sc = self.run, self.scenario
        sfA, sfA1, sfB1src = self.parse(), self.parse(), self.parse()
        A, A1 = self.pick(sfA), self.pick(sfA1)
        run.probe({'module': 'module_clones', 'routine': 'routine_clones', 'sourcefile': 'sourcefile_clones'}[sc['target']])
        try:
            B = self.do_clone(A)
            B1 = self.do_clone(self.pick(sfB1src))
        except Exception as e:  # pylint: disable=broad-except
            run.violate('clone-raised', f'clone({sc["clone_kwargs"]}) of the {sc["target"]} raised '
                                        f'{type(e).__name__}: {str(e)[:200]}')
            return
        keep = [sfA, sfA1, sfB1src, A, A1, B, B1]          # strong references to everything judged
        expect_same = sc['clone_kwargs'] != 'name'
        if expect_same and self.text(B) != self.text(A):
            run.violate('clone-differs', 'the clone generates different code than the original right after cloning')
        self.check_scopes(A, B, 'after clone')
        last = None
        switches = 0
        counts = {'A': 0, 'B': 0}
        for step, op in enumerate(sc['ops']):
            who = op['who']
            real, solo = (A, A1) if who == 'A' else (B, B1)
            if op['op'] == 'gc':
                if sc['gc'] == 'inject':
                    gc.collect(op['gen'])
                    run.probe('gc_injected')
                run.event('gc', step)
                continue
            r1 = self.apply(real, op)
            r2 = self.apply(solo, op)
            run.event(step, who, op['op'], op['i'], op['j'], str(r1)[:60])
            if r1[0] != r2[0]:
                run.violate('op-outcome-differs', f'step {step} {op["op"]} on {who}: the shared copy -> {r1}, the '
                                                  f'solo copy -> {r2}')
                return
            if r1[0] == 'raised':
                run.probe('op_raised_inconclusive')
                continue
            counts[who] += 1
            if last is not None and last != who:
                switches += 1
            last = who
            tA, tA1, tB, tB1 = self.text(A), self.text(A1), self.text(B), self.text(B1)
            if tA != tA1:
                run.violate('original-affected', f'step {step}: after {op["op"]} addressed to {who}, the original '
                                                 f'differs from a solo copy that received only its own edits:\n' +
                            _diff(tA1, tA))
                return
            if tB != tB1:
                run.violate('clone-affected', f'step {step}: after {op["op"]} addressed to {who}, the clone differs '
                                              f'from a solo clone that received only its own edits:\n' + _diff(tB1, tB))
                return
            if not self.check_scopes(A, B, f'step {step} ({op["op"]} on {who})'):
                return
        run.probe('ops_on_original', counts['A'])
        run.probe('ops_on_clone', counts['B'])
        run.probe('interleavings_switching_owner', switches)
        run.steps += len(sc['ops'])
        run.nontrivial = counts['A'] > 0 and counts['B'] > 0 and switches > 0
        _ = keep

    def check_scopes(self, A, B, where):
        sa_list = self.scopes_of(A)
        sa = {id(s) for s in sa_list}
        sb_list = self.scopes_of(B)
        inner = {id(s) for s in sb_list}
        # the clone's own enclosing scopes (a cloned routine keeps its parent module): only the chain of
        # the clone's *root* units counts, inner scopes must be parented inside the clone
        roots = [self.module_of(B)] if self.module_of(B) is not None else self.routines_of(B)
        outer = set()
        for r in roots:
            p = getattr(r, 'parent', None)
            n = 0
            while p is not None and n < 8:
                outer.add(id(p))
                p = getattr(p, 'parent', None)
                n += 1
        sb = inner | outer
        root_ids = {id(r) for r in roots}
        for s_ in sb_list:
            if id(s_) in root_ids:
                continue
            p = getattr(s_, 'parent', None)
            if p is None or id(p) not in inner:
                self.run.violate('clone-scope-parent', f'{where}: a scope inside the clone '
                                                       f'({type(s_).__name__} {getattr(s_, "name", "")}) has '
                                                       f'{"no parent" if p is None else "a parent outside the clone"}'
                                                       f'{" (the original)" if p is not None and id(p) in sa else ""}')
                return False
            if s_.symbol_attrs.parent is not p.symbol_attrs:
                self.run.violate('clone-table-parent', f'{where}: the symbol table of a scope inside the clone '
                                                       f'({type(s_).__name__} {getattr(s_, "name", "")}) is not '
                                                       f'linked to its parent scope\'s table')
                return False
        ifa = {id(n) for rr in self.routines_of(A) for intf in self.ir.FindNodes(self.ir.Interface).visit(rr.spec)
               for n in intf.body if hasattr(n, 'spec')}
        for rr in self.routines_of(B):
            for intf in self.ir.FindNodes(self.ir.Interface).visit(rr.spec):
                for n in intf.body:
                    if hasattr(n, 'spec') and id(n) in ifa:
                        self.run.violate('clone-shares-interface-routine',
                                         f'{where}: the routine {n.name!r} declared in an interface block of the clone '
                                         f'is the very object held by the original')
                        return False
        bad = []
        dead = []
        syms = list(self.symbols_of(B))
        # symbols hidden in declaration attributes: binding targets of type-bound procedures
        m = self.module_of(B)
        for unit, sel in ((B, sb),):
            mod = self.module_of(unit)
            if mod is None:
                continue
            for td in mod.typedefs:
                for d in self.ir.FindNodes(self.ir.ProcedureDeclaration).visit(td.body):
                    for sy in d.symbols:
                        for bn in (getattr(sy.type, 'bind_names', None) or ()):
                            syms.append(bn)
                # the type name must resolve to the clone's own definition
                entry = mod.symbol_attrs.lookup(td.name, recursive=False)
                tdef = getattr(getattr(entry, 'dtype', None), 'typedef', None)
                if tdef is not None and tdef is not td and not isinstance(tdef, type(self.ir.TypeDef)) and \
                        hasattr(tdef, 'body'):
                    if not any(v.cls == 'clone-typedef-resolution' for v in self.run.violations):
                        self.run.violate('clone-typedef-resolution',
                                         f'{where}: in the clone, type name {td.name!r} resolves to a TypeDef '
                                         f'object that is not the clone\'s own' +
                                         (' (the original\'s)' if any(tdef is t for t in self.module_of(A).typedefs)
                                          else ''))
                    # reported once; the history goes on (the other invariants are independent of it)
        _ = m
        for v in syms:
            sc = getattr(v, 'scope', None)
            if getattr(v, '_scope', None) is not None and sc is None:
                dead.append(str(v))
                continue
            if sc is None:
                continue
            if id(sc) not in sb:
                bad.append((str(v), 'original' if id(sc) in sa else 'foreign'))
        if bad:
            self.run.violate('clone-symbol-scope', f'{where}: symbols of the clone are scoped outside the clone: '
                                                   f'{sorted(set(bad))[:6]}')
            return False
        if dead:
            self.run.violate('clone-symbol-dead-scope', f'{where}: symbols of the clone refer to a dead scope: '
                                                        f'{sorted(set(dead))[:6]}')
            return False
        # and the original keeps resolving its types through itself
        modA = self.module_of(A)
        if modA is not None:
            for td in modA.typedefs:
                entry = modA.symbol_attrs.lookup(td.name, recursive=False)
                tdef = getattr(getattr(entry, 'dtype', None), 'typedef', None)
                if tdef is not None and hasattr(tdef, 'body') and tdef is not td:
                    self.run.violate('original-typedef-resolution', f'{where}: in the original, type name '
                                                                    f'{td.name!r} no longer resolves to its own TypeDef')
                    return False
        return True

    # -- operations (addressed structurally) ----------------------------------------------
    def apply(self, unit, op):
        try:
            return ('ok', self._apply(unit, op))
        except HarnessError:
            raise
        except Exception as e:  # pylint: disable=broad-except
            return ('raised', type(e).__name__)

    def _apply(self, unit, op):  # noqa: C901  pylint: disable=too-many-branches,too-many-return-statements
        ir, sym = self.ir, self.sym
        from loki.ir import Transformer, SubstituteExpressions, FindNodes  # pylint: disable=import-outside-toplevel
        from loki.types import SymbolAttributes, BasicType  # pylint: disable=import-outside-toplevel
        kind, i, j = op['op'], op['i'], op['j']
        r = self.main_routine(unit, i)
        m = self.module_of(unit)
        if kind == 'rename_unit':
            tgt = m if (m is not None and j % 2 == 0) else r
            tgt.name = f'{tgt.name}_r{j}'
            return tgt.name
        if kind == 'rename_member':
            if not r.members:
                return None
            mem = r.members[j % len(r.members)]
            mem.name = f'{mem.name}_m{j}'
            return mem.name
        if kind == 'retype_var':
            vs = [v for v in r.variables if not isinstance(v.type.dtype, type(None))]
            v = vs[j % len(vs)]
            r.symbol_attrs[v.name] = v.type.clone(kind=sym.Variable(name='jprd'), intent=None)
            return v.name
        if kind == 'update_attrs':
            vs = list(r.variables)
            v = vs[j % len(vs)]
            r.symbol_attrs[v.name] = v.type.clone(target=True)
            return v.name
        if kind == 'retype_module_var':
            if m is None:
                return None
            vs = list(m.variables)
            v = vs[j % len(vs)]
            m.symbol_attrs[v.name] = v.type.clone(dtype=BasicType.INTEGER, kind=None)
            return v.name
        if kind == 'add_var':
            nv = sym.Variable(name=f'newvar_{j}', type=SymbolAttributes(BasicType.REAL, kind=sym.Variable(name='jprb')),
                              scope=r)
            r.variables += (nv,)
            return nv.name
        if kind == 'remove_var':
            vs = list(r.variables)
            v = vs[j % len(vs)]
            r.variables = tuple(x for x in vs if x is not v)
            return v.name
        if kind == 'rename_var':
            vs = [v for v in r.variables if v.name.lower() in ('tmp', 's', 'i', 'j')]
            if not vs:
                return None
            v = vs[j % len(vs)]
            new = v.clone(name=f'{v.name}_v{j}')
            vmap = {x: x.clone(name=new.name) for x in ir.FindVariables(unique=False).visit(r.ir)
                    if x.name.lower() == v.name.lower()}
            r.spec = SubstituteExpressions(vmap).visit(r.spec)
            r.body = SubstituteExpressions(vmap).visit(r.body)
            return new.name
        if kind == 'append_comment':
            r.body.append(ir.Comment(text=f'! appended {j}'))
            return None
        if kind == 'prepend_assign':
            vs = [v for v in r.variables if isinstance(v, sym.Scalar) and v.type.dtype == BasicType.REAL]
            if not vs:
                return None
            v = vs[j % len(vs)]
            r.body.prepend(ir.Assignment(lhs=v.clone(), rhs=sym.FloatLiteral(f'{j}.5')))
            return v.name
        if kind == 'replace_assign':
            assigns = FindNodes(ir.Assignment).visit(r.body)
            if not assigns:
                return None
            a = assigns[j % len(assigns)]
            new = ir.Comment(text=f'! replaced {j}')
            r.body = Transformer({a: new}, inplace=op['inplace']).visit(r.body)
            return str(a)[:30]
        if kind == 'substitute':
            vs = [v for v in ir.FindVariables(unique=True).visit(r.body) if isinstance(v, sym.Scalar)]
            if not vs:
                return None
            vs = sorted(vs, key=lambda v: str(v).lower())
            v = vs[j % len(vs)]
            new = sym.Variable(name=f'subst_{j}', type=v.type, scope=r)
            r.body = SubstituteExpressions({v: new}, inplace=op['inplace']).visit(r.body)
            return str(v)
        if kind == 'rescope':
            (m if (m is not None and j % 2 == 0) else r).rescope_symbols()
            return None
        if kind == 'edit_typedef':
            if m is None:
                return None
            tds = list(m.typedefs)
            if not tds:
                return None
            td = tds[j % len(tds)]
            decls = FindNodes(ir.VariableDeclaration).visit(td.body)
            if not decls:
                return None
            d = decls[0]
            v = d.symbols[0]
            nv = v.clone(name=f'{v.name}_t{j}', type=v.type.clone(), scope=td)
            td._update(body=tuple(ir.VariableDeclaration(symbols=(nv,)) if n is d else n for n in td.body))
            return nv.name
        if kind == 'edit_iface':
            # a routine declared in an interface block of any routine of the copy
            bodies = [n for rr in self.routines_of(unit) for intf in FindNodes(ir.Interface).visit(rr.spec)
                      for n in intf.body if hasattr(n, 'spec')]
            if not bodies:
                return None
            ib = bodies[j % len(bodies)]
            if j % 2:
                ib.name = f'{ib.name}_i{j}'
            else:
                ib.spec.append(ir.Comment(text=f'! interface edit {j}'))
            return ib.name
        if kind == 'edit_internal':
            if not r.members:
                return None
            mem = r.members[j % len(r.members)]
            mem.body.append(ir.Comment(text=f'! member edit {j}'))
            return mem.name
        raise HarnessError(kind)


def _diff(a, b):
    import difflib  # pylint: disable=import-outside-toplevel
    return '\n'.join(list(difflib.unified_diff(a.splitlines(), b.splitlines(), lineterm='', n=0))[:16])
