"""
poolsim/lint -- C42: lint results do not depend on parallelism or completion order.

Real code: lint_files, lint_files_glob, check_and_fix_file, Linter.check/fix,
Reporter (init_parallel, add_file_report, add_file_error, output), the shipped
handlers (DefaultHandler, ViolationFileHandler, JunitXmlHandler, LazyTextfile),
find_paths, the full frontend on every file, the shipped rule sets
(/repo/lint_rules), workqueue, ParallelQueue, init_call.
Stubs: process pool, manager + proxies, as_completed, log listener, perf_counter.
"""
import gc
import logging
import os
import shutil as _shutil
import sys
import time as _time
import xml.etree.ElementTree as ET
from collections import Counter
from pathlib import Path

from sim import pool
from sim.engines.base import Engine
from sim.kernel import HarnessError
from sim.seams import Patches

# ---------------------------------------------------------------------------
# snippet bank
# ---------------------------------------------------------------------------

KINDS = ('clean', 'noimplicit', 'ops', 'banned', 'nokind', 'nested', 'module', 'badmodule', 'broken',
         'garbage', 'nonutf8', 'empty', 'ops2', 'manyargs', 'twounits')


def render(kind, k):
    K = f'{k}'
    if kind == 'clean':
        return f"""SUBROUTINE CLEAN_{K}(N, X)
USE PARKIND1, ONLY: JPIM, JPRB
USE YOMHOOK, ONLY: LHOOK, DR_HOOK, JPHOOK
IMPLICIT NONE
INTEGER(KIND=JPIM), INTENT(IN) :: N
REAL(KIND=JPRB), INTENT(INOUT) :: X(N)
REAL(KIND=JPHOOK) :: ZHOOK_HANDLE
INTEGER(KIND=JPIM) :: I
IF (LHOOK) CALL DR_HOOK('CLEAN_{K}',0,ZHOOK_HANDLE)
DO I=1,N
  X(I) = X(I) + 1.0_JPRB
END DO
IF (LHOOK) CALL DR_HOOK('CLEAN_{K}',1,ZHOOK_HANDLE)
END SUBROUTINE CLEAN_{K}
"""
    if kind == 'noimplicit':
        return f"""subroutine noimp_{K}(n, x)
use parkind1, only: jpim, jprb
integer(kind=jpim), intent(in) :: n
real(kind=jprb), intent(inout) :: x(n)
x(1) = 2.0_jprb
contains
subroutine inner_{K}(y)
real(kind=jprb), intent(inout) :: y
y = y * 2.0_jprb
end subroutine inner_{K}
end subroutine noimp_{K}
"""
    if kind in ('ops', 'ops2'):
        extra = '  if (x(1) .ge. 3.0_jprb .or. n .eq. 1) x(1) = 0.0_jprb\n' if kind == 'ops2' else ''
        return f"""subroutine ops_{K}(n, x)
use parkind1, only: jpim, jprb
implicit none
integer(kind=jpim), intent(in) :: n
real(kind=jprb), intent(inout) :: x(n)
integer(kind=jpim) :: i
do i=1,n
  if (x(i) .lt. 0.0_jprb) then
    x(i) = -x(i)
  elseif (x(i) .GT. 10.0_jprb .and. i .ne. {int(k) % 7}) then
    x(i) = 10.0_jprb
  end if
end do
{extra}end subroutine ops_{K}
"""
    if kind == 'banned':
        return f"""subroutine banned_{K}(n)
use parkind1, only: jpim
implicit none
integer(kind=jpim), intent(in) :: n
if (n > {K}) then
  print *, 'too large', n
  stop
end if
return
end subroutine banned_{K}
"""
    if kind == 'nokind':
        return f"""subroutine nokind_{K}(n, x)
implicit none
integer, intent(in) :: n
real, intent(inout) :: x(n)
real :: tmp
tmp = 1.5
x(1) = tmp + {K}.0
end subroutine nokind_{K}
"""
    if kind == 'nested':
        return f"""subroutine nested_{K}(n, x)
use parkind1, only: jpim, jprb
implicit none
integer(kind=jpim), intent(in) :: n
real(kind=jprb), intent(inout) :: x(n,n,n,n)
integer(kind=jpim) :: i, j, k, l
do i=1,n
  do j=1,n
    do k=1,n
      do l=1,n
        if (i == j) then
          x(i,j,k,l) = {K}.0_jprb
        end if
      end do
    end do
  end do
end do
end subroutine nested_{K}
"""
    if kind == 'module':
        return f"""module good_{K}_mod
use parkind1, only: jpim, jprb
implicit none
integer(kind=jpim), parameter :: np_{K} = {K}
contains
subroutine good_{K}(x)
real(kind=jprb), intent(inout) :: x
x = x + real(np_{K}, kind=jprb)
end subroutine good_{K}
end module good_{K}_mod
"""
    if kind == 'badmodule':
        return f"""module weird{K}
implicit none
integer :: counter_{K}
contains
subroutine bump{K}()
counter_{K} = counter_{K} + 1
end subroutine bump{K}
end module weird{K}
"""
    if kind == 'broken':
        return f"""subroutine broken_{K}(n)
implicit none
integer, intent(in) :: n
do i=1,n
  if (n > 1) then
    call foo(
end subroutine broken_{K}
"""
    if kind == 'garbage':
        return f"this is not fortran at all {K} )(*&^ \n end end end\n"
    if kind == 'nonutf8':
        return f"""subroutine latin_{K}(n)
! comment with a latin-1 byte: caf\xe9
implicit none
integer, intent(in) :: n
end subroutine latin_{K}
"""
    if kind == 'empty':
        return ''
    if kind == 'manyargs':
        args = ', '.join(f'a{i}' for i in range(55))
        decl = '\n'.join(f'integer(kind=jpim), intent(in) :: a{i}' for i in range(55))
        return f"""subroutine many_{K}({args})
use parkind1, only: jpim
implicit none
{decl}
end subroutine many_{K}
"""
    if kind == 'twounits':
        return f"""subroutine first_{K}(x)
use parkind1, only: jprb
implicit none
real(kind=jprb), intent(inout) :: x
if (x .le. 1.0_jprb) x = 1.0_jprb
end subroutine first_{K}

subroutine second_{K}(x)
real, intent(inout) :: x
x = 2.0
end subroutine second_{K}
"""
    if kind == 'program':
        return f"""program main_{K}
implicit none
integer :: i
i = {K}
if (i .gt. 3) i = 3
end program main_{K}
"""
    raise HarnessError(f'unknown snippet kind {kind}')


def write_tree(scenario, root):
    for f in scenario['files']:
        p = root / f['path']
        p.parent.mkdir(parents=True, exist_ok=True)
        text = render(f['kind'], f['k'])
        if f['kind'] == 'nonutf8':
            p.write_bytes(text.encode('latin-1'))
        else:
            p.write_text(text)


def read_tree(root):
    out = {}
    for p in sorted(root.rglob('*')):
        if p.is_file():
            out[str(p.relative_to(root))] = p.read_bytes()
    return out


# ---------------------------------------------------------------------------
# recording handler (picklable: travels to the "workers" like the shipped ones)
# ---------------------------------------------------------------------------

SINK = {}
TARGET_SINK = {}


def _get_generic_handler():
    from loki.lint import GenericHandler  # pylint: disable=import-outside-toplevel
    return GenericHandler


class _RecMixin:
    """mixed into a GenericHandler subclass created lazily (loki import is late)"""


_REC_CLASS = None


def rec_handler_class():
    global _REC_CLASS  # pylint: disable=global-statement
    if _REC_CLASS is None:
        GenericHandler = _get_generic_handler()
        from loki.lint import GenericRule  # pylint: disable=import-outside-toplevel

        class RecordingHandler(GenericHandler):
            def __init__(self, basedir, tag):
                super().__init__(basedir)
                self.tag = tag

            def handle(self, file_report):
                fn = str(self.get_relative_filename(file_report.filename))
                rules = []
                for rr in file_report.reports:
                    probs = tuple((p.msg, self.format_location(file_report.filename, p.location))
                                  for p in rr.problem_reports)
                    is_rule = isinstance(rr.rule, type) and issubclass(rr.rule, GenericRule)
                    rules.append((getattr(rr.rule, '__name__', str(rr.rule)), is_rule, probs))
                return (fn, tuple(rules))

            def output(self, handler_reports):
                SINK.setdefault(self.tag, []).append(list(handler_reports))

        RecordingHandler.__module__ = __name__
        RecordingHandler.__qualname__ = 'RecordingHandler'
        globals()['RecordingHandler'] = RecordingHandler
        _REC_CLASS = RecordingHandler
    return _REC_CLASS


def make_tracer(sim):
    """Line-level pre-emption inside loki/lint/reporter.py and loki/lint/linter.py (task threads only):
    at each executed line the simulator may take the baton away."""
    def local(frame, event, arg):  # pylint: disable=unused-argument
        if event == 'line' and sim.current is not sim.main and not sim.killing:
            if sim.ch.choose('line', 5) == 0:
                sim.run.probe('line_level_preemptions')
                sim.run.event('line', sim.current.name, os.path.basename(frame.f_code.co_filename), frame.f_lineno)
                sim.pause(0.0)
        return local

    def tracer(frame, event, arg):  # pylint: disable=unused-argument
        if event == 'call':
            fn = frame.f_code.co_filename
            if fn.endswith(('lint/reporter.py', 'lint/linter.py')):
                return local
        return None
    return tracer


class TimeShim:
    """``time`` as seen by codetiming: perf_counter reads the virtual clock."""

    def __getattr__(self, k):
        return getattr(_time, k)

    @staticmethod
    def perf_counter():
        sim = pool.CURRENT
        return sim.now if sim is not None else 0.0


class ShutilShim:
    """file copy of the fix path is an externally visible effect: pre-emption point"""

    def __getattr__(self, k):
        return getattr(_shutil, k)

    @staticmethod
    def copy(src, dst, **kw):
        sim = pool.CURRENT
        if sim is not None and sim.current is not sim.main:
            sim.pause(0.0)
            sim.run.event('fs', sim.current.name, 'copy', os.path.basename(str(src)))
        return _shutil.copy(src, dst, **kw)


# ---------------------------------------------------------------------------
# engine
# ---------------------------------------------------------------------------

class LintEngine(Engine):
    name = 'poolsim/lint'
    props = ('C42',)
    real = ('loki.lint.lint_files / lint_files_glob / check_and_fix_file', 'Linter.check / Linter.fix',
            'Reporter.init_parallel/add_file_report/add_file_error/output',
            'DefaultHandler, ViolationFileHandler, JunitXmlHandler, LazyTextfile', 'loki.tools.find_paths',
            'Sourcefile.from_file + full FP frontend on every file', 'lint_rules.ifs_coding_standards_2011 rule set',
            'loki.jit_build.workqueue (workqueue, ParallelQueue, init_call)')
    stubs = ('ProcessPoolExecutor -> SimExecutor (baton threads; pickle transport of the Linter into every task '
             'and of results back)', 'multiprocessing.Manager -> SimManager (dict/list proxies: by-reference '
             'pickling, by-value storage, every request a pre-emption point)',
             'concurrent.futures.as_completed -> simulated completion order', 'QueueListener -> no-op',
             'time.perf_counter (codetiming) -> virtual clock')
    fault_kinds = ('fault_unparsable_file', 'fault_nonutf8_file', 'fault_worker_death')
    probes = ('interleaved_between_items_and_append', 'completion_order_differs_from_submission',
              'failing_file_finished_first', 'failing_file_finished_last', 'sched_choice_points',
              'fix_runs', 'two_phase_runs', 'overlapping_patterns', 'strict_mode_runs', 'spawned_workers', 'line_level_preemptions',
              'worker_death_surfaced_as_exception')
    nontrivial_rule = ('a run is non-trivial if at some scheduling step >=2 actors (main thread, worker tasks) were '
                       'runnable; distinct = distinct event-history digest (start/end/proxy-request/fs events)')
    hashseed_independent = True

    def setup(self):
        import loki.jit_build  # pylint: disable=import-outside-toplevel,unused-import
        import loki.lint.linter as L  # pylint: disable=import-outside-toplevel
        import lint_rules.ifs_coding_standards_2011 as rules  # pylint: disable=import-outside-toplevel,import-error
        import codetiming._timer as CT  # pylint: disable=import-outside-toplevel
        from loki.config import config as loki_config  # pylint: disable=import-outside-toplevel
        self.W = sys.modules['loki.jit_build.workqueue']
        self.L = L
        self.CT = CT
        self.rules = rules
        self.rule_defaults = {n: _deep(getattr(rules, n).config) for n in rules.__all__}
        self.loki_config = loki_config
        self.config_at_import = dict(loki_config.items())
        loki_config['debug'] = False
        self.config_at_import['debug'] = False
        logging.getLogger('Loki').setLevel(logging.CRITICAL + 1)
        from loki.logging import default_logger, logger  # pylint: disable=import-outside-toplevel
        default_logger.setLevel(logging.CRITICAL + 1)
        logger.setLevel(logging.CRITICAL + 1)
        rec_handler_class()

    def process_globals(self):
        """Process-global mutable state that real worker processes do *not* share with the parent."""
        from collections import OrderedDict  # pylint: disable=import-outside-toplevel
        cfg = self.loki_config
        rules = self.rules

        def get_cfg():
            return dict(cfg.items())

        def set_cfg(st):
            for k in list(cfg.keys()):
                if k not in st:
                    OrderedDict.__delitem__(cfg, k)
            for k, v in st.items():
                OrderedDict.__setitem__(cfg, k, v)      # no callbacks: this is a context switch

        def get_rules():
            return {n: _deep(getattr(rules, n).config) for n in rules.__all__}

        def set_rules(st):
            for n, c in st.items():
                d = getattr(rules, n).config
                d.clear()
                d.update(_deep(c))

        cells = [('loki.config', get_cfg, set_cfg), ('rule config dicts', get_rules, set_rules)]
        spawn = [dict(self.config_at_import), _deep(self.rule_defaults)]
        return pool.ProcessGlobals(cells, spawn)

    # -- generation -----------------------------------------------------------
    def gen(self, g, prop, tier):
        big = tier == 'thorough'
        n = g.randint('nfiles', 1, 12 if big else 8)
        if g.flip('manyfiles', 1, 6):
            # more files than any batching/chunking of the submission could hide
            n = g.randint('nfiles2', 9, 30 if big else 21)
        dirs = ['', 'a', 'a/b', 'c']
        files = []
        for i in range(n):
            kind = g.weighted('kind', [('clean', 2), ('noimplicit', 2), ('ops', 3), ('ops2', 2), ('banned', 2),
                                       ('nokind', 2), ('nested', 1), ('module', 1), ('badmodule', 1),
                                       ('broken', 2), ('garbage', 1), ('nonutf8', 1), ('empty', 1),
                                       ('manyargs', 1), ('twounits', 2), ('program', 2)])
            d = g.pick('dir', dirs)
            ext = g.pick('ext', ['.F90', '.F90', '.f90'])
            files.append({'path': (d + '/' if d else '') + f'f{i}{ext}', 'kind': kind, 'k': i})
        inc_choice = g.weighted('inc', [('all', 5), ('split', 3), ('overlap', 1), ('subdir', 1)])
        if inc_choice == 'all':
            include = ['*.F90', '*.f90']
        elif inc_choice == 'split':
            include = ['*.f90', '*.F90']
        elif inc_choice == 'overlap':
            include = ['*.F90', '*.f90', 'a/*.F90']
        else:
            include = ['a/**/*.F90', 'a/**/*.f90', '*.F90']
        exclude = g.pick('exc', [None, None, ['c/*'], ['f0.*']])
        fix = g.flip('fix', 1, 3)
        scen = {
            'files': files, 'include': include, 'exclude': exclude,
            'max_workers': g.pick('workers', [2, 2, 3, 4, 4, 8]),
            'fix': fix,
            'backup_suffix': g.pick('bak', [None, '.bak']) if fix else None,
            'rules': g.pick('rules', [None, None, ['Fortran90OperatorsRule', 'ImplicitNoneRule', 'DrHookRule'],
                                      ['Fortran90OperatorsRule']]),
            'junit': g.flip('junit'), 'violations': g.flip('viol'), 'line_hashes': g.flip('lh'),
            'rule_cfg': g.flip('rulecfg', 1, 4),
            'fs_preempt': g.flip('fspre', 3, 4),
            'strict_mode': g.flip('strict', 1, 4),
            'die': {'task': g.choose('dietask', n), 'after': g.choose('dieafter', 4)} if g.flip('die', 1, 6) else None,
            'line_trace': g.flip('linetrace', 1, 3 if big else 10),
            # one Linter/Reporter used for two lint_files_glob calls (the first serial, the second parallel)
            'two_phase': inc_choice in ('all', 'split') and g.flip('twophase', 1, 5),
        }
        return scen

    def describe(self, scenario):
        d = dict(scenario)
        d['files'] = [f"{f['path']}:{f['kind']}" for f in scenario['files']]
        return d

    def shrink(self, scenario, prop):
        s = scenario
        for i in range(len(s['files'])):
            if len(s['files']) > 1:
                c = self.clone(s)
                del c['files'][i]
                yield c
        for i, f in enumerate(s['files']):
            if f['kind'] not in ('clean', 'ops'):
                for k2 in ('clean', 'ops'):
                    c = self.clone(s)
                    c['files'][i]['kind'] = k2
                    yield c
            if '/' in f['path']:
                c = self.clone(s)
                c['files'][i]['path'] = f['path'].rsplit('/', 1)[1]
                yield c
        for w in (2, 3):
            if s['max_workers'] > w:
                c = self.clone(s)
                c['max_workers'] = w
                yield c
        if s.get('die'):
            c = self.clone(s)
            c['die'] = None
            yield c
        for key in ('junit', 'violations', 'line_hashes', 'rule_cfg', 'fix', 'fs_preempt', 'strict_mode', 'line_trace'):
            if s[key]:
                c = self.clone(s)
                c[key] = False
                if key == 'fix':
                    c['backup_suffix'] = None
                yield c
        for key in ('exclude', 'rules', 'backup_suffix'):
            if s[key]:
                c = self.clone(s)
                c[key] = None
                yield c
        if s['include'] != ['*.F90', '*.f90']:
            c = self.clone(s)
            c['include'] = ['*.F90', '*.f90']
            yield c

    # -- execution --------------------------------------------------------------
    def _reset_rules(self):
        for n, cfg in self.rule_defaults.items():
            c = getattr(self.rules, n).config
            c.clear()
            c.update(_deep(cfg))

    def _lint_once(self, scenario, run, root, tag, workers):
        """One real lint_files call on a freshly materialised tree."""
        tree = root / 'tree'
        if tree.exists():
            _shutil.rmtree(tree)
        tree.mkdir()
        write_tree(scenario, tree)
        out = root / f'out_{tag}'
        out.mkdir()
        self._reset_rules()
        Rec = rec_handler_class()
        config = {'basedir': str(tree), 'include': list(scenario['include']), 'max_workers': workers,
                  'fix': scenario['fix']}
        if scenario['exclude']:
            config['exclude'] = list(scenario['exclude'])
        if scenario['backup_suffix']:
            config['backup_suffix'] = scenario['backup_suffix']
        if scenario['rules']:
            config['rules'] = list(scenario['rules'])
        if scenario['junit']:
            config['junitxml_file'] = str(out / 'junit.xml')
        if scenario['violations']:
            config['violations_file'] = str(out / 'violations.yml')
            config['use_violations_file_line_hashes'] = scenario['line_hashes']
        if scenario['rule_cfg']:
            config['CodeBodyRule'] = {'max_nesting_depth': 2}
            config['MaxDummyArgsRule'] = {'max_num_arguments': 10}
        self.loki_config['frontend-strict-mode'] = bool(scenario.get('strict_mode'))
        SINK.pop(tag, None)
        # harness-side knowledge (pathlib only): files matched by more than one include pattern
        hits = Counter(str(p.relative_to(tree)) for pat in scenario['include'] for p in tree.rglob(pat))
        overlap = sorted(f for f, c in hits.items() if c > 1)
        excluded = {str(p.relative_to(tree)) for pat in (scenario['exclude'] or []) for p in tree.rglob(pat)}
        selected = sorted(f for f in hits if f not in excluded)
        if overlap:
            run.probe('overlapping_patterns')
        err = None
        count = None
        try:
            if scenario.get('two_phase'):
                run.probe('two_phase_runs')
                count = self._lint_two_phase(config, [Rec(str(tree), tag)])
            else:
                count = self.L.lint_files(self.rules, config, handlers=[Rec(str(tree), tag)])
        except (pool.SimDeadlock, pool.SimStepCap) as e:
            err = e
        except Exception as e:  # pylint: disable=broad-except
            err = e
        finally:
            self.loki_config['frontend-strict-mode'] = False
        config = None
        gc.collect()        # LazyTextfile flushes in __del__ (observation at quiescence)
        res = {'count': count, 'err': err, 'rec': SINK.pop(tag, []),
               'tree': read_tree(tree), 'junit': None, 'viol': None, 'overlap': overlap,
               'selected': selected}
        jf, vf = out / 'junit.xml', out / 'violations.yml'
        if scenario['junit'] and jf.exists():
            res['junit'] = jf.read_text()
        if scenario['violations'] and vf.exists():
            res['viol'] = vf.read_text()
        return res

    def _lint_two_phase(self, config, handlers):
        """What lint_files does, but with two lint_files_glob calls on one Linter: the first pattern serially,
        the remaining ones with the configured number of workers."""
        L = self.L
        basedir = config['basedir']
        handlers = list(handlers) + [L.DefaultHandler(basedir=basedir)]
        if 'junitxml_file' in config:
            jf = L.LazyTextfile(config['junitxml_file'])
            handlers.append(L.JunitXmlHandler(target=jf.write, basedir=basedir))
        if 'violations_file' in config:
            vf = L.LazyTextfile(config['violations_file'])
            handlers.append(L.ViolationFileHandler(target=vf.write, basedir=basedir,
                                                   use_line_hashes=config.get('use_violations_file_line_hashes', True)))
        linter = L.Linter(reporter=L.Reporter(handlers), rules=self.rules, config=config)
        kw = {'exclude': config.get('exclude'), 'fix': config.get('fix', False),
              'backup_suffix': config.get('backup_suffix')}
        count = L.lint_files_glob(linter, basedir, config['include'][:1], max_workers=1, **kw)
        count += L.lint_files_glob(linter, basedir, config['include'][1:], max_workers=config.get('max_workers', 1), **kw)
        linter.reporter.output()
        return count

    def execute(self, scenario, run):
        root = run.scratch
        patches = Patches()
        sim = pool.Sim(run, max_steps=20000, dispatch_latencies=(0.0, 0.0, 0.01), submit_delays=(0.0, 0.0, 0.001),
                       op_delays=(0.0, 0.0, 0.002))
        pool.install(sim)
        sim.use_process_globals(self.process_globals())
        for f in scenario['files']:
            if f['kind'] in ('broken', 'garbage'):
                run.probe('fault_unparsable_file')
            if f['kind'] == 'nonutf8':
                run.probe('fault_nonutf8_file')
        if scenario['fix']:
            run.probe('fix_runs')
        if scenario.get('strict_mode'):
            run.probe('strict_mode_runs')
        try:
            patches.set(self.W, 'ProcessPoolExecutor', pool.SimExecutor)
            patches.set(self.W, 'Manager', pool.SimManager)
            patches.set(self.W, 'QueueListener', pool.NoListener)
            patches.set(self.W, '_initialized', True)
            patches.set(self.L, 'Manager', pool.SimManager)
            patches.set(self.L, 'as_completed', pool.sim_as_completed)
            patches.set(self.CT, 'time', TimeShim())
            if scenario['fs_preempt']:
                patches.set(self.L, 'shutil', ShutilShim())
            ser = self._lint_once(scenario, run, root, 'ser', 1)
            if scenario.get('die'):
                sim.die = (sim.ntasks + scenario['die']['task'], scenario['die']['after'])
            if scenario.get('line_trace'):
                sim.trace_hook = make_tracer(sim)
            par = self._lint_once(scenario, run, root, 'par', scenario['max_workers'])
            sim.trace_hook = None
            sim.die = None
        finally:
            try:
                sim.shutdown()
            finally:
                pool.uninstall()
                patches.undo()
                self._reset_rules()
        self._probes(run, scenario, sim)
        self._oracle(scenario, run, ser, par)

    def _probes(self, run, scenario, sim):
        ends = [e[1] for e in run.events if e[0] == 'end']
        if ends and ends != sorted(ends):
            run.probe('completion_order_differs_from_submission')
        # a task interleaved between another task's items() and its append()
        open_items = {}
        for e in run.events:
            if e[0] == 'op' and e[1] != 'main':
                if e[3] == 'items':
                    open_items[e[1]] = True
                elif e[3] == 'append':
                    if any(o for t, o in open_items.items() if t != e[1]):
                        run.probe('interleaved_between_items_and_append')
                        break
                    open_items[e[1]] = open_items.get(e[1], False)
                elif e[3] == 'end':
                    open_items.pop(e[1], None)
        _ = scenario, sim

    # -- oracle -----------------------------------------------------------------
    def _oracle(self, scenario, run, ser, par):
        if isinstance(par['err'], pool.SimStepCap) or isinstance(ser['err'], pool.SimStepCap):
            raise HarnessError('step cap hit in lint simulation')
        if isinstance(par['err'], pool.SimDeadlock):
            run.violate('hang', f'parallel lint never finishes: {par["err"]}')
            return
        if scenario.get('die') and run.stats.get('fault_worker_death') and par['err'] is not None and \
                ser['err'] is None:
            # relaxed oracle of the worker-death class: raising is fine (never a short count presented as success)
            run.probe('worker_death_surfaced_as_exception')
            return
        if (ser['err'] is None) != (par['err'] is None):
            run.violate('outcome-differs', f'serial: {ser["err"]!r}; parallel: {par["err"]!r}')
            return
        if ser['err'] is not None:
            # both raised: outside what the statement describes (lint_files itself failing)
            run.probe('both_raised')
            return
        if ser['count'] != par['count']:
            run.violate('count-differs', f'checked_count serial={ser["count"]} parallel={par["count"]}')
        # exactly-once per selected file and equal multisets of per-file reports
        tree = Path('.')
        _ = tree
        if len(ser['rec']) != 1 or len(par['rec']) != 1:
            run.violate('output-calls', f'handler.output called {len(ser["rec"])}x serial / '
                                        f'{len(par["rec"])}x parallel')
            return
        srec, prec = Counter(ser['rec'][0]), Counter(par['rec'][0])
        if srec != prec:
            missing = list((srec - prec).elements())[:3]
            extra = list((prec - srec).elements())[:3]
            run.violate('reports-differ', f'per-file reports differ: missing in parallel {missing!r}; '
                                          f'only in parallel {extra!r}')
        # every selected file is *checked* exactly once: at most one check report
        # (entries are rules) and at most one error report (entry is the exception
        # type: parse failure, crashing rule, or a failing fix after the check)
        for tag, res in (('serial', ser), ('parallel', par)):
            nchk, nerr = Counter(), Counter()
            for fn, entries in res['rec'][0]:
                if entries and all(e[1] for e in entries):
                    nchk[fn] += 1
                else:
                    nerr[fn] += 1
            dup = sorted(f for f in set(nchk) | set(nerr) if nchk[f] > 1 or nerr[f] > 1)
            if dup:
                sig = 'file-checked-twice:overlapping-include-patterns' if set(dup) <= set(res['overlap']) else None
                run.violate('file-checked-twice', f'[{tag}] files checked more than once: {dup} '
                                                  f'(include={scenario["include"]})', sig=sig)
            sel = set(res['selected'])
            seen = set(nchk) | set(nerr)
            if sel != seen:
                run.violate('selection-differs', f'[{tag}] selected files {sorted(sel)} but reports for '
                                                 f'{sorted(seen)}')
        # shipped handlers' artefacts
        if scenario['junit']:
            a, b = _junit_summary(ser['junit']), _junit_summary(par['junit'])
            if a != b:
                run.violate('junit-differs', f'JUnit XML differs: serial-only {list((a - b).elements())[:2]!r} '
                                             f'parallel-only {list((b - a).elements())[:2]!r}')
        if scenario['violations']:
            a, b = _yaml_summary(ser['viol']), _yaml_summary(par['viol'])
            if a != b:
                run.violate('violations-file-differs', f'violations file differs: serial {a!r} parallel {b!r}'[:600])
        if scenario['fix'] and ser['tree'] != par['tree']:
            diff = [k for k in set(ser['tree']) | set(par['tree']) if ser['tree'].get(k) != par['tree'].get(k)]
            sig = 'fixed-tree-differs:overlapping-include-patterns' if par['overlap'] else None
            run.violate('fixed-tree-differs', f'files differ after fix: {sorted(diff)[:5]}', sig=sig)


def _deep(x):
    import copy  # pylint: disable=import-outside-toplevel
    return copy.deepcopy(x)


def _junit_summary(text):
    if text is None:
        return Counter({'<missing>': 1})
    root = ET.fromstring(text)
    out = Counter()
    for ts in root.iter('testsuite'):
        for tc in ts.iter('testcase'):
            fails = tuple(sorted((f.get('message') or '') + '|' + (f.text or '') for f in tc.iter('failure')))
            out[(os.path.basename(ts.get('name') or ''), tc.get('name'),
                 os.path.basename(tc.get('classname') or ''), fails)] += 1
    return out


def _yaml_summary(text):
    if text is None:
        return '<missing>'
    import yaml  # pylint: disable=import-outside-toplevel
    docs = {}
    data = yaml.safe_load(text) or {}
    for k, v in data.items():
        docs[k] = repr(v)
    return sorted(docs.items())
