"""
batchworld -- C21 (scheduler graph = pruned dependency closure, independent of
environment-decided orders) and C22 (each selected item processed once, in
dependency order).

The simulator owns: the iteration order of the ``set`` of paths in
``Scheduler._discover`` (a function of PYTHONHASHSEED in production), the
choice among valid topological orders at every ``SFilter`` iteration, the hash
seed of the interpreter (per block), and whether a full parse is requested.
Real code: Scheduler, SGraph, SFilter, ItemFactory, Item*, SchedulerConfig,
Transformation.apply*, REGEX and FP frontends.  The transformation applied is a
probe (a real Transformation subclass that records its calls).
"""
import logging

from sim.engines.base import Engine
from sim.engines import batchgen as BG
from sim.kernel import HarnessError
from sim.seams import NxProxy, OrderedSetSeam, Patches


def write_project(proj, root):
    for path, text in BG.emit_files(proj).items():
        p = root / path
        p.parent.mkdir(parents=True, exist_ok=True)
        p.write_text(text)


def loki_config(cfg):
    default = dict(cfg['default'])
    return {'default': default, 'routines': {k: dict(v) for k, v in cfg['routines'].items()}}


class BatchEngine(Engine):
    name = 'batchworld'
    props = ('C21', 'C22')
    real = ('loki.batch.Scheduler (discover, populate, parse, enrich, process*)', 'SGraph', 'SFilter', 'ItemFactory',
            'Item classes', 'SchedulerConfig', 'Transformation.apply / apply_* dispatch', 'REGEX and FP frontends')
    stubs = ('builtin set as seen by loki.batch.scheduler -> choose-permuted order (legal set behaviour)',
             'networkx.topological_sort as seen by loki.batch.sfilter -> choose-driven valid topological order',
             'PYTHONHASHSEED -> chosen per worker interpreter',
             'the transformation applied is a recording probe (C22)')
    fault_kinds = ('adversarial_set_order_runs', 'adversarial_topo_order_runs', 'strict_external_runs',
                   'lazy_parse_runs')
    fault_kinds_by_prop = {'C22': ('adversarial_set_order_runs', 'adversarial_topo_order_runs',
                                   'strict_external_runs')}
    probes = ('set_order_choice_points', 'topo_choice_points', 'graphs_compared', 'configs_with_ignore',
              'configs_with_block', 'configs_with_disable', 'configs_with_noexpand', 'external_nodes',
              'file_graph_passes', 'file_graph_recursion_passes', 'reverse_passes', 'plan_passes', 'ignored_items_processed',
              'expected_runtime_errors', 'case_colliding_paths', 'graph_differs_from_reference',
              'ir_edits_between_passes')
    nontrivial_rule = ('a run is non-trivial if the set-order or topological-order seam had >= 1 choice point with '
                       '>= 2 alternatives; distinct = digest of (project, config, observed graph / probe history)')
    hashseed_independent = False

    def setup(self):
        import loki  # pylint: disable=import-outside-toplevel,unused-import
        import loki.batch.scheduler as S  # pylint: disable=import-outside-toplevel
        import loki.batch.sfilter as F  # pylint: disable=import-outside-toplevel
        from loki.logging import default_logger  # pylint: disable=import-outside-toplevel
        self.S, self.F = S, F
        default_logger.setLevel(logging.CRITICAL + 1)
        from loki import config as lcfg  # pylint: disable=import-outside-toplevel
        lcfg['regex-frontend-timeout'] = 0 if False else lcfg['regex-frontend-timeout']

    # -- generation -------------------------------------------------------------
    def gen(self, g, prop, tier):
        proj = BG.gen_project(g, tier, bindings=True)
        cfg = BG.gen_config(g, proj, tier, patterns=True)
        scen = {'proj': proj, 'cfg': cfg, 'set_random': g.flip('setrnd', 4, 5), 'topo_random': g.flip('toporand', 4, 5)}
        if prop == 'C21' and len(proj['files']) >= 2 and g.flip('casecollide', 1, 12):
            # two files in one directory whose names differ only in letter case
            i, j = g.sample('collide', list(range(len(proj['files']))), 2)
            proj['files'][i]['path'] = 'a/Unit_X.F90'
            proj['files'][j]['path'] = 'a/unit_x.f90'
        if prop == 'C21':
            scen['variants'] = [{'full_parse': g.flip('fp')} for _ in range(g.randint('nvar', 2, 3))]
            if all(v['full_parse'] == scen['variants'][0]['full_parse'] for v in scen['variants']):
                scen['variants'][-1]['full_parse'] = not scen['variants'][0]['full_parse']
        else:
            scen['passes'] = []
            for _ in range(g.randint('npass', 1, 3)):
                scen['passes'].append({
                    'item_filter': g.pick('ifilter', ['proc', 'proc', 'proc+mod', 'item', 'proc+type']),
                    'reverse': g.flip('rev', 1, 3),
                    'file_graph': g.flip('fg', 2, 5),
                    'process_ignored': g.flip('pign', 1, 3),
                    'plan': g.flip('plan', 1, 4),
                })
                # file-graph traversal with recursion into the modules and procedures of each file
                scen['passes'][-1]['recurse'] = scen['passes'][-1]['file_graph'] and g.flip('recurse', 2, 3)
            if len(scen['passes']) >= 2 and g.flip('edit', 1, 3):
                # between two passes a transformation (without creates/renames flags) removes a plain call
                cands = [(p, i) for p, P in proj['procs'].items() for i, c in enumerate(P['calls'])
                         if c['via'] == 'plain' and not P.get('prefix')]
                if cands:
                    p, i = g.pick('editcall', cands)
                    scen['passes'].insert(1, {'edit': p, 'drop_call': i})
            if any(ps.get('item_filter', 'proc') != 'proc' for ps in scen['passes']):
                # documented: processing module / typedef items requires enable_imports
                cfg['default']['enable_imports'] = True
        return scen

    def describe(self, scenario):
        d = {k: v for k, v in scenario.items() if k != 'proj'}
        d['files'] = {p: t.splitlines() for p, t in BG.emit_files(scenario['proj']).items()}
        return d

    def shrink(self, scenario, prop):
        s = scenario
        proj = s['proj']
        # drop a call / use / external
        for p, P in proj['procs'].items():
            for i in range(len(P['calls'])):
                c = self.clone(s)
                del c['proj']['procs'][p]['calls'][i]
                yield c
            for key in ('uses_var', 'uses_type', 'uses_param', 'calls_iface', 'calls_bound'):
                for i in range(len(P.get(key, []))):
                    if key == 'uses_type' and any([m, t] == P[key][i] for m, t, _ in P.get('calls_bound', [])):
                        continue        # the declaration a type-bound call needs
                    c = self.clone(s)
                    del c['proj']['procs'][p][key][i]
                    yield c
            if P['external']:
                c = self.clone(s)
                c['proj']['procs'][p]['external'] = None
                yield c
            if P.get('ext_mod') is not None:
                c = self.clone(s)
                c['proj']['procs'][p]['ext_mod'] = None
                yield c
            if P['recursive']:
                c = self.clone(s)
                c['proj']['procs'][p]['recursive'] = False
                yield c
        # drop config entries
        for k in list(s['cfg']['routines']):
            if s['cfg']['routines'][k].get('role') != 'driver' or len(s['cfg']['routines'][k]) > 1:
                c = self.clone(s)
                del c['cfg']['routines'][k]
                yield c
        for k in ('disable', 'enable_imports'):
            if k in s['cfg']['default']:
                c = self.clone(s)
                del c['cfg']['default'][k]
                yield c
        if len(s['cfg']['seeds']) > 1:
            for i in range(len(s['cfg']['seeds'])):
                c = self.clone(s)
                del c['cfg']['seeds'][i]
                yield c
        # drop an uncalled, unseeded procedure (and empty modules / files)
        called = {c['to'] for P in proj['procs'].values() for c in P['calls']}
        seeds = {x.split('#')[-1] for x in s['cfg']['seeds']}
        for p in list(proj['procs']):
            if p in called or p in seeds:
                continue
            c = self.clone(s)
            self._drop_proc(c, p)
            yield c
        # merge every unit into its own single file in the root directory
        for i, f in enumerate(proj['files']):
            if '/' in f['path']:
                c = self.clone(s)
                c['proj']['files'][i]['path'] = f['path'].rsplit('/', 1)[1]
                yield c
        if self.colliding(s):
            c = self.clone(s)
            for i, f in enumerate(c['proj']['files']):
                f['path'] = f'f{i}.F90'
            yield c
        for key in ('set_random', 'topo_random'):
            if s[key]:
                c = self.clone(s)
                c[key] = False
                yield c
        for key in ('variants', 'passes'):
            if key in s and len(s[key]) > (2 if key == 'variants' else 1):
                for i in range(len(s[key])):
                    c = self.clone(s)
                    del c[key][i]
                    yield c

    @staticmethod
    def _drop_proc(c, p):
        proj = c['proj']
        P = proj['procs'].pop(p)
        proj['order'] = [x for x in proj['order'] if x != p]
        if P['mod']:
            m = next(m for m in proj['mods'] if m['name'] == P['mod'])
            m['procs'] = [x for x in m['procs'] if x != p]
        else:
            for f in proj['files']:
                f['units'] = [u for u in f['units'] if u != ['free', p]]
            proj['files'] = [f for f in proj['files'] if f['units']]
        for k in list(c['cfg']['routines']):
            if k.split('#')[-1] == p:
                del c['cfg']['routines'][k]
        for key in ('ignore', 'block', 'disable'):
            for rc in list(c['cfg']['routines'].values()) + [c['cfg']['default']]:
                if key in rc:
                    rc[key] = [x for x in rc[key] if x.split('#')[-1] != p]
                    if not rc[key]:
                        del rc[key]

    # -- execution ---------------------------------------------------------------
    def make_scheduler(self, scenario, run, root, full_parse):
        from loki.batch import Scheduler, SchedulerConfig  # pylint: disable=import-outside-toplevel
        from loki.frontend import FP  # pylint: disable=import-outside-toplevel
        cfg = SchedulerConfig.from_dict(loki_config(scenario['cfg']))
        return Scheduler(paths=[root], config=cfg, seed_routines=list(scenario['cfg']['seeds']),
                         full_parse=full_parse, frontend=FP)

    @staticmethod
    def colliding(scenario):
        paths = [f['path'].lower() for f in scenario['proj']['files']]
        return len(set(paths)) != len(paths)

    def execute(self, scenario, run):
        if self.colliding(scenario):
            run.probe('case_colliding_paths')
            orig = run.violate

            def violate(cls, detail, sig=None):
                return orig(cls, detail, sig=sig or 'case-colliding-paths')
            run.violate = violate
        if any(P['recursive'] or P.get('prefix') for P in scenario['proj']['procs'].values()):
            # full-parse enrichment of projects with recursive routines: identified by its message
            orig2 = run.violate

            def violate2(cls, detail, sig=None):
                if sig is None and 'Missing type information for variable symbol' in detail:
                    sig = 'enrich-missing-type-information:project-with-recursive-routine'
                return orig2(cls, detail, sig=sig)
            run.violate = violate2
        root = run.scratch / 'src'
        root.mkdir()
        write_project(scenario['proj'], root)
        patches = Patches()
        patches.set(self.S, 'set', OrderedSetSeam(run, enabled=scenario['set_random']))
        patches.set(self.F, 'nx', NxProxy(run, enabled=scenario['topo_random']))
        if scenario['set_random']:
            run.probe('adversarial_set_order_runs')
        if scenario['topo_random']:
            run.probe('adversarial_topo_order_runs')
        try:
            if run.prop == 'C21':
                self.run_c21(scenario, run, root)
            else:
                self.run_c22(scenario, run, root)
        finally:
            patches.undo()

    # ------------------------------------------------------------------- C21
    def observe_graph(self, sched):
        nodes = {}
        for it in sched.items:
            nodes[it.name.lower()] = (type(it).__name__, bool(it.is_ignored))
        edges = {(a.name.lower(), b.name.lower()) for a, b in sched.dependencies}
        return nodes, edges

    def run_c21(self, scenario, run, root):
        cfg = scenario['cfg']
        ref = BG.reference_graph(scenario['proj'], cfg)
        strict = cfg['default'].get('strict', True)
        for k in ('ignore', 'block', 'disable'):
            if any(k in rc for rc in cfg['routines'].values()) or k in cfg['default']:
                run.probe(f'configs_with_{k}')
        if any(rc.get('expand') is False for rc in cfg['routines'].values()):
            run.probe('configs_with_noexpand')
        if ref['has_external']:
            run.probe('external_nodes')
        observed = []
        for vi, var in enumerate(scenario['variants']):
            if not var['full_parse']:
                run.probe('lazy_parse_runs')
            try:
                sched = self.make_scheduler(scenario, run, root, var['full_parse'])
                obs = ('ok',) + self.observe_graph(sched)
            except RuntimeError as e:
                obs = ('RuntimeError', str(e)[:200], None)
            except HarnessError:
                raise
            except Exception as e:  # pylint: disable=broad-except
                obs = (type(e).__name__, f'{type(e).__name__}: {str(e)[:200]}', None)
            run.event('graph', vi, var['full_parse'], obs[0],
                      tuple(sorted(obs[1])) if obs[0] == 'ok' else obs[1],
                      tuple(sorted(obs[2])) if obs[0] == 'ok' else None)
            observed.append((var, obs))
        # (1) order / hash seed / full-parse independence: all variants agree
        base_var, base = observed[0]
        for var, obs in observed[1:]:
            run.probe('graphs_compared')
            if obs[0] != base[0]:
                run.violate('graph-unstable', f'outcome {base[0]} (full_parse={base_var["full_parse"]}) vs {obs[0]} '
                                              f'(full_parse={var["full_parse"]}) for the same project and config: '
                                              f'{obs[1] if obs[0] != "ok" else base[1]}')
                continue
            if obs[0] != 'ok':
                continue
            cyc = {e for a, b in ref['cycles'] for e in ((a, b), (b, a))}
            if set(obs[1]) != set(base[1]) or (obs[2] - cyc) != (base[2] - cyc):
                dn = sorted(set(obs[1]) ^ set(base[1]))
                de = sorted(obs[2] ^ base[2])
                run.violate('graph-unstable', f'graph differs between two constructions of the same project '
                                              f'(full_parse {base_var["full_parse"]} vs {var["full_parse"]}, other '
                                              f'enumeration/topological order): nodes {dn[:6]} edges {de[:6]}')
            else:
                flags = [n for n in obs[1] if obs[1][n][1] != base[1][n][1] and ref['ignored'].get(n) is not None]
                if flags:
                    run.violate('ignored-unstable', f'is_ignored differs between constructions for {flags[:5]}')
        # (2) sampled clause: equality with the reference closure
        if base[0] != 'ok':
            if base[0] == 'RuntimeError' and strict and ref['has_external']:
                run.probe('expected_runtime_errors')
                run.probe('strict_external_runs')
            else:
                run.violate('graph-build-failed', f'Scheduler construction raised although no strict/external '
                                                  f'condition applies: {base[1]}')
            return
        nodes, edges = base[1], base[2]
        if strict and ref['has_external'] and base_var['full_parse']:
            # documented: strict mode does not tolerate missing definitions
            run.probe('strict_external_tolerated')
        exp_nodes = set(ref['nodes'])
        if set(nodes) != exp_nodes:
            missing = sorted(exp_nodes - set(nodes))
            extra = sorted(set(nodes) - exp_nodes)
            run.violate('closure-nodes', f'graph nodes differ from the pruned dependency closure: missing '
                                         f'{missing[:6]}, unexpected {extra[:6]}')
            return
        ref_edges = set(ref['edges'])
        edges = set(edges)
        for a, b in ref['cycles']:
            present = {(a, b), (b, a)} & edges
            if len(present) != 1:
                run.violate('recursion-cycle', f'the mutual recursion {a} <-> {b} of two RECURSIVE procedures must '
                                               f'be broken by removing exactly one of the two edges; the graph '
                                               f'keeps {sorted(present)}')
            edges -= {(a, b), (b, a)}
            ref_edges -= {(a, b), (b, a)}
        if edges != ref_edges:
            ref = dict(ref, edges=ref_edges)
            run.violate('closure-edges', f'graph edges differ from the closure: missing '
                                         f'{sorted(ref["edges"] - edges)[:6]}, unexpected '
                                         f'{sorted(edges - ref["edges"])[:6]}')
        for n, (cls, ign) in nodes.items():
            exp = ref['ignored'].get(n)
            if exp is not None and ign != exp:
                run.violate('ignored-flag', f'{n}: is_ignored={ign}, expected {exp} from the ignore rules')
            kind = ref['nodes'][n]
            expcls = {'proc': ('ProcedureItem',), 'module': ('ModuleItem',), 'type': ('TypeDefItem',),
                      'external': ('ExternalItem',), 'external_mod': ('ExternalItem',),
                      'interface': ('InterfaceItem',), 'binding': ('ProcedureBindingItem',)}[kind]
            if cls not in expcls:
                run.violate('item-kind', f'{n} is a {cls}, expected {expcls[0]}')

    # ------------------------------------------------------------------- C22
    def probe_class(self):
        if getattr(self, '_probe', None) is None:
            from loki.batch import Transformation  # pylint: disable=import-outside-toplevel

            class Probe(Transformation):
                def __init__(self, log):
                    self.log = log

                def _rec(self, hook, unit, kwargs):
                    item = kwargs.get('item')
                    self.log.append({'hook': hook, 'unit': getattr(unit, 'name', None) or str(getattr(unit, 'path', '')),
                                     'item': item.name.lower() if item is not None else None,
                                     'item_cls': type(item).__name__ if item is not None else None,
                                     'role': kwargs.get('role'), 'mode': kwargs.get('mode'),
                                     'targets': tuple(str(t).lower() for t in (kwargs.get('targets') or ())),
                                     'plan_mode': kwargs.get('plan_mode'),
                                     'ignored': bool(item.is_ignored) if item is not None else None})

                def transform_subroutine(self, routine, **kwargs):
                    self._rec('transform_subroutine', routine, kwargs)

                def transform_module(self, module, **kwargs):
                    self._rec('transform_module', module, kwargs)

                def transform_file(self, sourcefile, **kwargs):
                    self._rec('transform_file', sourcefile, kwargs)

                def plan_subroutine(self, routine, **kwargs):
                    self._rec('plan_subroutine', routine, kwargs)

                def plan_module(self, module, **kwargs):
                    self._rec('plan_module', module, kwargs)

                def plan_file(self, sourcefile, **kwargs):
                    self._rec('plan_file', sourcefile, kwargs)

            self._probe = Probe
        return self._probe

    def run_c22(self, scenario, run, root):
        from loki.batch import (  # pylint: disable=import-outside-toplevel
            ProcedureItem, ModuleItem, TypeDefItem, Item, ProcessingStrategy
        )
        cfg = scenario['cfg']
        proj = scenario['proj']
        ref = BG.reference_graph(proj, cfg)
        strict = cfg['default'].get('strict', True)
        try:
            sched = self.make_scheduler(scenario, run, root, True)
        except RuntimeError as e:
            if strict and ref['has_external']:
                run.probe('expected_runtime_errors')
                run.probe('strict_external_runs')
                run.event('construct', 'RuntimeError')
            else:
                run.violate('graph-build-failed', f'Scheduler construction raised: {str(e)[:200]}')
            return
        except HarnessError:
            raise
        except Exception as e:  # pylint: disable=broad-except
            run.violate('graph-build-failed', f'Scheduler construction raised {type(e).__name__}: {str(e)[:200]}')
            return
        nodes, edges = self.observe_graph(sched)
        cyc = {e for a, b in ref['cycles'] for e in ((a, b), (b, a))}
        # the direction in which a recursion cycle was broken is Loki's choice: adopt it
        ref['edges'] = (ref['edges'] - cyc) | (edges & cyc)
        if set(nodes) != set(ref['nodes']) or edges != ref['edges']:
            # C21's business; C22's oracle needs an agreed graph to speak about
            run.probe('graph_differs_from_reference')
            return
        succ = {}
        for a, b in ref['edges']:
            succ.setdefault(a, set()).add(b)

        def reach(a):
            seen, todo = set(), [a]
            while todo:
                x = todo.pop()
                for y in succ.get(x, ()):
                    if y not in seen:
                        seen.add(y)
                        todo.append(y)
            return seen
        reachable = {n: reach(n) for n in ref['nodes']}
        filters = {'proc': (ProcedureItem,), 'proc+mod': (ProcedureItem, ModuleItem), 'item': (Item,),
                   'proc+type': (ProcedureItem, TypeDefItem)}
        kinds = {'proc': ('proc',), 'proc+mod': ('proc', 'module'), 'item': ('proc', 'module', 'type', 'interface', 'binding'),
                 'proc+type': ('proc', 'type')}
        file_of = {}
        for f in proj['files']:
            for kind, name in f['units']:
                if kind == 'free':
                    file_of[f'#{name}'] = f['path'].lower()
                else:
                    file_of[name] = f['path'].lower()
                    m = next(m for m in proj['mods'] if m['name'] == name)
                    for pn in m['procs']:
                        file_of[BG.item_name(proj, pn)] = f['path'].lower()
                    for t in m['types']:
                        file_of[f'{name}#{t}'] = f['path'].lower()
                    for b in m.get('bindings', []):
                        file_of[f'{name}#{b["type"]}%{b["name"]}'] = f['path'].lower()
                    for bp in m.get('bprocs', []):
                        file_of[f'{name}#{bp}'] = f['path'].lower()
                    if m.get('iface'):
                        file_of[f'{name}#{m["iface"]["name"]}'] = f['path'].lower()
                        for ip in m['iface']['procs']:
                            file_of[f'{name}#{ip}'] = f['path'].lower()
        Probe = self.probe_class()
        import copy  # pylint: disable=import-outside-toplevel
        proj_now = proj
        for pi, ps in enumerate(scenario['passes']):
            if 'edit' in ps:
                if ps['edit'] not in proj_now['procs'] or ps['drop_call'] >= len(proj_now['procs'][ps['edit']]['calls']):
                    continue
                proj_now = copy.deepcopy(proj_now)
                dropped = proj_now['procs'][ps['edit']]['calls'].pop(ps['drop_call'])
                self.apply_edit(sched, BG.item_name(proj, ps['edit']), BG.ename(proj, dropped['to']))
                run.probe('ir_edits_between_passes')
                run.event('edit', ps['edit'], dropped['to'])
                continue
            log = []
            t = Probe(log)
            t.item_filter = filters[ps['item_filter']]
            t.reverse_traversal = ps['reverse']
            t.traverse_file_graph = ps['file_graph']
            t.process_ignored_items = ps['process_ignored']
            if ps.get('recurse'):
                t.recurse_to_modules = True
                t.recurse_to_procedures = True
                run.probe('file_graph_recursion_passes')
            if ps['reverse']:
                run.probe('reverse_passes')
            if ps['file_graph']:
                run.probe('file_graph_passes')
            if ps['plan']:
                run.probe('plan_passes')
            err = None
            try:
                sched.process(t, proc_strategy=ProcessingStrategy.PLAN if ps['plan'] else ProcessingStrategy.SEQUENCE)
            except HarnessError:
                raise
            except Exception as e:  # pylint: disable=broad-except
                err = e
            run.event('pass', pi, tuple(sorted(ps.items())), 'err' if err else 'ok',
                      tuple((r['hook'], self._relfile(r['item'], root)) for r in log))
            tag = f'pass {pi} {ps}'
            sel_kinds = kinds[ps['item_filter']]
            # an external procedure of a selected kind that is not excluded as ignored: strict processing
            # must refuse it (RuntimeError), non-strict processing skips it
            ext_selected = [n for n, k in ref['nodes'].items() if k in ('external', 'external_mod') and
                            'proc' in sel_kinds and (ps['process_ignored'] or not nodes[n][1])]
            if strict and ext_selected and not ps['file_graph']:
                run.probe('strict_external_runs')
                if not isinstance(err, RuntimeError):
                    run.violate('external-not-refused', f'{tag}: strict mode, selected external item(s) '
                                                        f'{ext_selected[:3]} but processing '
                                                        f'{"raised " + type(err).__name__ if err else "did not raise"}')
                continue
            if err is not None:
                if strict and ps['file_graph'] and isinstance(err, RuntimeError) and \
                        any(k in ('external', 'external_mod') for k in ref['nodes'].values()):
                    run.probe('strict_external_runs')       # file-graph traversal with externals: not judged
                    continue
                run.violate('process-raised', f'{tag}: {type(err).__name__}: {str(err)[:200]}')
                continue
            want_hooks = 'plan_' if ps['plan'] else 'transform_'
            wrong = [r for r in log if not r['hook'].startswith(want_hooks)]
            if wrong:
                run.violate('wrong-hook', f'{tag}: hooks {sorted({r["hook"] for r in wrong})} called under '
                                          f'{"PLAN" if ps["plan"] else "SEQUENCE"} strategy')
            def selected(n):
                if ref['nodes'][n] not in sel_kinds:
                    return False
                ign = nodes[n][1]
                return ps['process_ignored'] or not ign
            if not ps['file_graph']:
                expected = {n for n in ref['nodes'] if selected(n)}
                visited = [r['item'] for r in log]
                # InterfaceItem is documented as "not a work item": whether a transformation
                # selected via item_filter=Item is applied to it is left open
                optional = {n for n in expected if ref['nodes'][n] == 'interface'}
                self._exactly_once(run, tag, expected, visited, optional)
                pos = {n: i for i, n in enumerate(visited)}
                for a in pos:
                    for b in reachable.get(a, ()):
                        if b in pos and a != b:
                            if (pos[a] > pos[b]) != ps['reverse']:
                                run.violate('order', f'{tag}: {a} (position {pos[a]}) and its dependency {b} '
                                                     f'(position {pos[b]}) processed in the wrong order')
                for r in log:
                    n = r['item']
                    if n not in ref['nodes'] or ref['nodes'][n] != 'proc':
                        continue
                    ic = BG.item_config(cfg, n)
                    if r['role'] != ic.get('role'):
                        run.violate('role', f'{tag}: {n} received role {r["role"]!r}, configured {ic.get("role")!r}')
                    if r['mode'] != ic.get('mode'):
                        run.violate('mode', f'{tag}: {n} received mode {r["mode"]!r}, configured {ic.get("mode")!r}')
                    if r['ignored']:
                        run.probe('ignored_items_processed')
                    self._targets(run, tag, proj_now, cfg, n, r['targets'])
            else:
                files = {}
                for n in ref['nodes']:
                    if ref['nodes'][n] in ('external', 'external_mod'):
                        continue
                    if selected(n):
                        files.setdefault(file_of[n], set()).add(n)
                visited = [self._relfile(r['item'], root) for r in log if r['hook'].endswith('_file')]
                self._exactly_once(run, tag, set(files), visited)
                # recursion into the units of each file: only items of the graph, honouring the ignore rules,
                # each at most once; selected procedures of a visited file exactly once
                inner = [r for r in log if not r['hook'].endswith('_file')]
                seen_inner = set()
                for r in inner:
                    n = r['item']
                    if n is None:
                        continue
                    if r['ignored'] and not ps['process_ignored']:
                        run.violate('ignored-processed', f'{tag}: {r["hook"]} applied to the ignored item {n} although '
                                                         f'process_ignored_items is False')
                    if r['hook'].endswith('_subroutine'):
                        if n not in ref['nodes']:
                            run.violate('processed-unselected', f'{tag}: {r["hook"]} applied to {n}, which is not '
                                                                f'an item of the graph')
                        if (r['hook'], n) in seen_inner:
                            run.violate('processed-twice', f'{tag}: {r["hook"]} applied to {n} more than once')
                    seen_inner.add((r['hook'], n))
                if ps.get('recurse') and 'proc' in sel_kinds:
                    got = {n for h, n in seen_inner if h.endswith('_subroutine')}
                    for f, ns in files.items():
                        if f in visited:
                            for n in ns:
                                if ref['nodes'][n] == 'proc' and n not in got:
                                    run.violate('not-processed', f'{tag}: file {f} was visited with recursion into '
                                                                 f'procedures but {n} was never processed')
                # file order: consistent with every edge whose two end items both pass the filter
                fsucc = {}
                for a, b in ref['edges']:
                    if ref['nodes'][a].startswith('external') or ref['nodes'][b].startswith('external'):
                        continue
                    if selected(a) and selected(b) and file_of[a] != file_of[b]:
                        fsucc.setdefault(file_of[a], set()).add(file_of[b])
                pos = {n: i for i, n in enumerate(visited)}
                for fa, fbs in fsucc.items():
                    for fb in fbs:
                        if fa in pos and fb in pos and (pos[fa] > pos[fb]) != ps['reverse']:
                            run.violate('file-order', f'{tag}: file {fa} (position {pos[fa]}) and the file it depends '
                                                      f'on {fb} (position {pos[fb]}) visited in the wrong order')

    @staticmethod
    def apply_edit(sched, item_name, callee):
        """What a transformation without creates/renames flags does: remove the calls to ``callee`` from one
        routine's IR (applied directly to the item's IR, independent of strict-mode processing rules)."""
        from loki.ir import nodes as ir, FindNodes, Transformer  # pylint: disable=import-outside-toplevel
        item = next((it for it in sched.items if it.name.lower() == item_name), None)
        if item is None or item.ir is None:
            return
        routine = item.ir
        cmap = {c: None for c in FindNodes(ir.CallStatement).visit(routine.body)
                if str(c.name).lower() == callee.lower()}
        if cmap:
            routine.body = Transformer(cmap).visit(routine.body)

    @staticmethod
    def _relfile(name, root):
        r = str(root).lower()
        n = (name or '').lower()
        return n[len(r) + 1:] if n.startswith(r) else n

    @staticmethod
    def _exactly_once(run, tag, expected, visited, optional=()):
        from collections import Counter  # pylint: disable=import-outside-toplevel
        c = Counter(visited)
        expected = set(expected) - (set(optional) - set(c))
        twice = sorted(n for n, k in c.items() if k > 1)
        if twice:
            run.violate('processed-twice', f'{tag}: {twice[:5]} processed more than once')
        missing = sorted(expected - set(c))
        extra = sorted(set(c) - expected)
        if missing:
            run.violate('not-processed', f'{tag}: selected items never processed: {missing[:6]}')
        if extra:
            run.violate('processed-unselected', f'{tag}: items processed although not selected: {extra[:6]}')

    @staticmethod
    def _targets(run, tag, proj, cfg, n, targets):
        """Sandwich check: required names present, excluded names absent, nothing foreign."""
        p = next((k for k in proj['procs'] if BG.item_name(proj, k) == n), None)
        if p is None:
            return
        P = proj['procs'][p]
        c = BG.item_config(cfg, n)
        gdis = cfg['default'].get('disable', [])
        tset = set(targets)
        allowed = set()
        for call in P['calls']:
            cname = BG.item_name(proj, call['to'])
            Q = proj['procs'][call['to']]
            callee = BG.ename(proj, call['to'])
            alias = f'loc_{callee}'
            allowed |= {callee, alias}
            if Q['mod'] and Q['mod'] != P['mod']:
                allowed.add(Q['mod'])
            excluded = BG.matches_with_parents(cname, gdis) or BG.matches_with_parents(cname, c.get('disable')) or \
                BG.matches_with_parents(cname, c.get('block'))
            if call['via'] == 'rename':
                continue            # spelling of renamed entries is not fixed by the statement
            if excluded:
                if callee in tset:
                    run.violate('targets-excluded', f'{tag}: {n} received target {callee!r} although it is '
                                                    f'disabled/blocked for this item')
            elif callee not in tset:
                run.violate('targets-missing', f'{tag}: {n} did not receive its dependency {callee!r} in targets '
                                               f'{sorted(tset)}')
        for m in P['uses_var'] + P['uses_param'] + BG.effective_unqual(proj, p):
            allowed.add(m)
            idx = BG.m_index(proj, m)
            allowed |= {f'gv{idx}', f'np{idx}'}
            excluded = BG.matches_with_parents(m, gdis) or BG.matches_with_parents(m, c.get('disable')) or \
                BG.matches_with_parents(m, c.get('block'))
            if not excluded and m not in tset:
                run.violate('targets-missing', f'{tag}: {n} did not receive the module {m!r} it imports in targets '
                                               f'{sorted(tset)}')
        for m, t in P['uses_type']:
            allowed |= {m, t}
            tn = f'{m}#{t}'
            excluded = BG.matches_with_parents(tn, gdis) or BG.matches_with_parents(tn, c.get('disable')) or \
                BG.matches_with_parents(tn, c.get('block'))
            if not excluded and t not in tset:
                run.violate('targets-missing', f'{tag}: {n} did not receive the type {t!r} it uses in targets '
                                               f'{sorted(tset)}')
        for m in P.get('calls_iface', []):
            gname = f'gen{BG.m_index(proj, m)}'
            allowed |= {m, gname}
            tn = f'{m}#{gname}'
            excluded = BG.matches_with_parents(tn, gdis) or BG.matches_with_parents(tn, c.get('disable')) or \
                BG.matches_with_parents(tn, c.get('block'))
            if not excluded and gname not in tset:
                run.violate('targets-missing', f'{tag}: {n} did not receive the generic interface {gname!r} it '
                                               f'calls in targets {sorted(tset)}')
        if P.get('bound'):
            allowed.add(P['bound'])
            tn = f'{P["mod"]}#{P["bound"]}'
            excluded = BG.matches_with_parents(tn, gdis) or BG.matches_with_parents(tn, c.get('disable')) or \
                BG.matches_with_parents(tn, c.get('block'))
            if not excluded and P['bound'] not in tset:
                run.violate('targets-missing', f'{tag}: {n} did not receive the type {P["bound"]!r} of its passed-object '
                                               f'argument in targets {sorted(tset)}')
        for m, t, b in P.get('calls_bound', []):
            var = f'tv{P["uses_type"].index([m, t])}%{b}'
            allowed |= {var, m, t}
            bn = f'{m}#{t}%{b}'
            excluded = BG.matches_with_parents(bn, gdis) or BG.matches_with_parents(bn, c.get('disable')) or \
                BG.matches_with_parents(bn, c.get('block'))
            if excluded:
                if var in tset:
                    run.violate('targets-excluded', f'{tag}: {n} received target {var!r} although the binding is '
                                                    f'disabled/blocked for this item')
            elif var not in tset:
                run.violate('targets-missing', f'{tag}: {n} did not receive the type-bound call {var!r} in targets '
                                               f'{sorted(tset)}')
        if P['external']:
            allowed.add(P['external'])
        if P.get('ext_mod') is not None:
            allowed |= {f'missing{P["ext_mod"]}_mod', f'mp{P["ext_mod"]}'}
        if P['recursive'] or P.get('prefix'):
            allowed.add(BG.ename(proj, p))
        foreign = sorted(tset - allowed)
        if foreign:
            run.violate('targets-foreign', f'{tag}: {n} received targets {foreign} that name nothing it calls, '
                                           f'imports or uses')
