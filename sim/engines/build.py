"""
poolsim/build -- C44: parallel JIT library builds respect module dependencies.

Real code: Builder, Obj (regex dependency extraction, cache), Header, Lib.build
/_build_objs, workqueue, ParallelQueue, init_call, wait_and_check,
Compiler.compile_args/linker_args/link, loki.tools.execute.
Stubs: process pool, manager, log listener, ``subprocess.run`` (the compiler
and linker), the clock, networkx' topological tie-break.
"""
import hashlib
import logging
import re
import subprocess
import sys
from pathlib import Path

from sim import pool
from sim.engines.base import Engine
from sim.kernel import HarnessError
from sim.seams import NxProxy, Patches

INTRINSIC_MODULES = {'iso_c_binding', 'iso_fortran_env', 'ieee_arithmetic', 'ieee_exceptions',
                     'ieee_features', 'omp_lib', 'openacc'}

SERVICE_TIMES = (0.5, 1.0, 1.0, 2.0, 5.0, 20.0)
STALL_TIMES = (61.0, 90.0, 200.0)
LATENCIES = (0.0, 0.0, 0.1, 1.0)
SUBMIT_DELAYS = (0.0, 0.0, 0.0, 0.5, 3.0)
TIMEOUT = 60.0


def spell(name, k):
    return (name.lower(), name.upper(), name.capitalize(), name[:1].lower() + name[1:].upper())[k % 4]


def use_stmt(mod, form, only=None):
    tail = f', only: {only}' if only else ''
    if form == 0:
        return f'use {mod}{tail}'
    if form == 1:
        return f'USE :: {mod}{tail}'
    if form == 2:
        return f'use, non_intrinsic :: {mod}{tail}'
    return f'Use  {mod}{tail}'


# ---------------------------------------------------------------------------
# Scenario model -> files
# ---------------------------------------------------------------------------

def node_name(n):
    return f"m{n['id']}" if n['kind'] == 'module' else f"s{n['id']}"


def render_node(n, by_id, headers):
    """Fortran text of one source file.  Deterministic in the model."""
    nm = node_name(n)
    lines = []
    uses = []
    for u in n['uses']:
        tgt = by_id[u['to']]
        uses.append('  ' + use_stmt(spell(node_name(tgt), u['spell']), u['form'],
                                    only=f"v{tgt['id']}" if u.get('only') else None))
    if n.get('intrinsic'):
        uses.append('  use, intrinsic :: iso_c_binding, only: c_int')
    inc = []
    if n.get('include') is not None:
        inc.append(f'#include "{headers[n["include"]]["name"]}"')
    semi = n.get('semicolon_use') and uses
    if n['kind'] == 'module':
        mn = spell(nm, n['modspell'])
        if semi:
            lines.append(f'module {mn}; {uses[0].strip()}')
            uses = uses[1:]
        else:
            lines.append(f'module {mn}')
        lines += uses
        lines.append('  implicit none')
        lines.append(f'  integer :: v{n["id"]} = {n["id"]}')
        lines.append('contains')
        lines.append(f'  subroutine r{n["id"]}(x)')
        lines.append('    integer, intent(inout) :: x')
        lines += inc
        lines.append(f'    x = x + v{n["id"]} + {n.get("salt", 0)}')
        lines.append(f'  end subroutine r{n["id"]}')
        lines.append(f'end module {mn}')
    else:
        if semi:
            lines.append(f'subroutine {nm}(x); {uses[0].strip()}')
            uses = uses[1:]
        else:
            lines.append(f'subroutine {nm}(x)')
        lines += uses
        lines.append('  implicit none')
        lines.append('  integer, intent(inout) :: x')
        lines += inc
        lines.append(f'  x = x + {n.get("salt", 0)}')
        lines.append(f'end subroutine {nm}')
    return '\n'.join(lines) + '\n'


def render_header(h, by_id):
    lines = ['interface', f'subroutine ext_{h["id"]}(y)']
    for u in h['uses']:
        tgt = by_id[u['to']]
        lines.append('  ' + use_stmt(spell(node_name(tgt), u['spell']), 0, only=f"v{tgt['id']}"))
    lines += ['  integer, intent(inout) :: y', f'end subroutine ext_{h["id"]}', 'end interface']
    return '\n'.join(lines) + '\n'


def file_stem(n):
    return spell(node_name(n), n['stemspell'])


def model_deps(scenario):
    """Reference DAG from the generator's model: id -> set(ids) of providers."""
    heads = {h['id']: h for h in scenario['headers']}
    deps = {}
    for n in scenario['nodes']:
        d = {u['to'] for u in n['uses']}
        if n.get('include') is not None:
            d |= {u['to'] for u in heads[n['include']]['uses']}
        deps[n['id']] = d
    return deps


def closure(roots, deps):
    seen = set()
    todo = list(roots)
    while todo:
        x = todo.pop()
        if x in seen:
            continue
        seen.add(x)
        todo.extend(deps[x])
    return seen


# ---------------------------------------------------------------------------
# Stub compiler / linker behind loki.tools.util.run
# ---------------------------------------------------------------------------

_re_use = re.compile(r'^\s*use\b\s*(?:,\s*(\w+)\s*)?(?:::)?\s*(\w+)', re.I)
_re_module = re.compile(r'^\s*module\s+(?!procedure\b)(\w+)\s*$', re.I)
_re_inc = re.compile(r'^\s*#include\s+"([^"]+)"')


class BuildState:
    """Per-build record: the history the oracle judges."""

    def __init__(self, run, tag, fail=None, stall=None, record=True):
        self.run = run
        self.tag = tag
        self.events = []          # (kind, obj) in effect order
        self.fail = fail          # object name (lower) whose compile fails
        self.stall = stall
        self.record = record
        self.service_total = 0.0
        self.linked = []          # link events: (target, [(name, content)])

    def ev(self, kind, obj):
        self.events.append((kind, obj))
        if self.record:
            self.run.event(kind, obj)


class Flow:
    """
    One build directory driven through a sequence of build steps.  File
    modification times are virtual: every write gets the next tick of the
    flow's counter, so "newer than" is exactly "written later in the history".
    """
    BASE = 1_000_000_000

    def __init__(self):
        self.clock = 0

    def stamp(self, path):
        self.clock += 1
        import os  # pylint: disable=import-outside-toplevel
        os.utime(path, (self.BASE + self.clock, self.BASE + self.clock))


FLOW = None


def _stamp(path):
    if FLOW is not None:
        FLOW.stamp(path)


STATE = None


def os_utime_old(path):
    import os  # pylint: disable=import-outside-toplevel
    os.utime(path, (Flow.BASE - 1000, Flow.BASE - 1000))


def _hash(*parts):
    return hashlib.sha1('\x00'.join(parts).encode()).hexdigest()[:12]


def sim_run(command, check=True, cwd=None, **kwargs):  # pylint: disable=unused-argument
    """Replacement for subprocess.run as seen by loki.tools.util.execute."""
    st = STATE
    if st is None:
        raise HarnessError('sim_run without build state')
    args = [str(a) for a in command]
    if '-c' in args:
        return _compile(st, args)
    return _link(st, args)


def _fail(args, msg):
    raise subprocess.CalledProcessError(1, args, output=msg.encode(), stderr=b'')


def _compile(st, args):
    sim = pool.current()
    src = Path(args[-1])
    target = Path(args[args.index('-o') + 1])
    moddir = next((Path(a[2:]) for a in args if a.startswith('-J')), target.parent)
    incdirs = [Path(a[2:]) for a in args if a.startswith('-I')]
    obj = target.stem
    in_task = sim.current is not sim.main
    st.ev('cstart', obj)
    text = src.read_text()
    used = []
    defined = []
    lines = [part for raw in text.splitlines()
             for part in (raw.split(';') if not raw.lstrip().startswith(('#', '!')) else [raw])]
    i = 0
    while i < len(lines):
        line = lines[i]
        i += 1
        m = _re_inc.match(line)
        if m:
            for d in incdirs + [src.parent]:
                if (d / m.group(1)).exists():
                    lines[i:i] = [part for raw in (d / m.group(1)).read_text().splitlines() for part in raw.split(';')]
                    break
            else:
                st.ev('cfail', obj)
                _fail(args, f'Fatal Error: {m.group(1)}: No such file or directory')
            continue
        m = _re_use.match(line)
        if m:
            nature, name = m.group(1), m.group(2).lower()
            if (nature or '').lower() == 'intrinsic' or name in INTRINSIC_MODULES:
                continue
            used.append(name)
            continue
        m = _re_module.match(line)
        if m:
            defined.append(m.group(1).lower())
    # read the .mod files of everything used -- a compiler does this when it
    # meets the USE statement, i.e. right at the start
    mod_contents = []
    missing = None
    for u in dict.fromkeys(used):
        if u in defined:
            continue
        f = moddir / f'{u}.mod'
        if not f.exists():
            missing = u
            break
        mod_contents.append(f'{u}={f.read_text()}')
    # service time of this compile, decided by the simulator
    if in_task:
        if st.stall == obj:
            d = STALL_TIMES[sim.ch.choose('stall', len(STALL_TIMES))]
            st.run.probe('fault_stall_fired')
        else:
            d = SERVICE_TIMES[sim.ch.choose('service', len(SERVICE_TIMES))]
        st.service_total += d
        sim.pause(d)
    if missing is not None:
        st.ev('cfail', obj)
        st.run.probe('stub_missing_mod')
        _fail(args, f'Fatal Error: Cannot open module file \'{missing}.mod\' for reading: '
                    'No such file or directory')
    if st.fail == obj:
        st.ev('cfail', obj)
        st.run.probe('fault_compile_error_fired')
        _fail(args, 'Error: injected compile error')
    content = _hash(text, *mod_contents)
    for m in defined:
        (moddir / f'{m}.mod').write_text(content)
        _stamp(moddir / f'{m}.mod')
    target.write_text(content)
    _stamp(target)
    st.ev('cend', obj)
    return subprocess.CompletedProcess(args, 0, b'', b'')


def _link(st, args):
    objs = [Path(a) for a in args if a.endswith('.o')]
    if args[0] == 'ar':
        target = Path(args[2])
    else:
        target = Path(args[args.index('-o') + 1])
    members = []
    for o in objs:
        if not o.exists():
            st.ev('lfail', o.stem)
            _fail(args, f'ld: cannot find {o.name}: No such file or directory')
        members.append((o.stem, o.read_text()))
    st.ev('link', target.name)
    st.linked.append((target.name, members))
    target.write_text(repr(sorted(members)))
    _stamp(target)
    return subprocess.CompletedProcess(args, 0, b'', b'')


# ---------------------------------------------------------------------------
# Engine
# ---------------------------------------------------------------------------

def queue_timeout(st, err):
    """A TimeoutError that the simulated load explains: at least DEFAULT_TIMEOUT virtual seconds of compile work
    had been started when it was raised (a necessary condition for any wait to last that long without a stall)."""
    from loki.jit_build.workqueue import DEFAULT_TIMEOUT  # pylint: disable=import-outside-toplevel
    return isinstance(err, TimeoutError) and st.service_total >= DEFAULT_TIMEOUT


class BuildEngine(Engine):
    name = 'poolsim/build'
    props = ('C44',)
    real = ('loki.jit_build.Builder (incl. get_dependency_graph)', 'loki.jit_build.Obj', 'loki.jit_build.Header',
            'loki.jit_build.Lib.build/_build_objs', 'loki.jit_build.workqueue (workqueue, ParallelQueue, '
            'init_call, wait_and_check)', 'Compiler.compile_args/linker_args/link', 'loki.tools.execute')
    stubs = ('ProcessPoolExecutor -> sim.pool.SimExecutor (baton threads, virtual time, pickle transport)',
             'multiprocessing.Manager -> SimManager', 'QueueListener -> no-op',
             'subprocess.run -> stub compiler/linker (reads .mod of used modules, writes .mod/.o, content hashes)',
             'networkx.topological_sort in loki.jit_build.lib -> choose-driven valid order', 'clock -> virtual')
    fault_kinds = ('fault_compile_error_fired', 'fault_stall_fired', 'timeout_fired')
    probes = ('timeout_by_queueing', 'rebuild_steps', 'wait_hit_unfinished_task', 'stub_missing_mod', 'topo_choice_points', 'sched_choice_points',
              'stale_mod_present', 'header_transitive_dep')
    nontrivial_rule = ('a run is non-trivial if the scheduler had >=2 runnable actors at some step or the '
                       'topological tie-break had >=2 ready nodes; distinct = distinct event-history digest')
    hashseed_independent = True

    def setup(self):
        import loki.jit_build  # pylint: disable=import-outside-toplevel,unused-import
        self.W = sys.modules['loki.jit_build.workqueue']
        self.LB = sys.modules['loki.jit_build.lib']
        self.O = sys.modules['loki.jit_build.obj']
        self.HD = sys.modules['loki.jit_build.header']
        self.U = sys.modules['loki.tools.util']
        self.logger = logging.getLogger('lokisim.build')
        self.logger.propagate = False
        self.logger.handlers = [logging.NullHandler()]
        self.logger.setLevel(logging.CRITICAL + 1)
        logging.getLogger('Loki').setLevel(logging.CRITICAL + 1)
        try:
            from loki.logging import default_logger  # pylint: disable=import-outside-toplevel
            default_logger.setLevel(logging.CRITICAL + 1)
        except Exception:  # pylint: disable=broad-except
            pass

    # -- generation ---------------------------------------------------------
    def gen(self, g, prop, tier):
        big = tier == 'thorough'
        n = g.randint('n', 2, 12 if big else 9)
        shape = g.pick('shape', ['random', 'random', 'chain', 'diamond', 'wide'])
        nodes = []
        for i in range(n):
            kind = 'module' if (i < n - 1 and not g.flip('free', 1, 6)) or i == 0 else \
                g.pick('kind', ['module', 'sub'])
            provs = [m['id'] for m in nodes if m['kind'] == 'module']
            if shape == 'chain':
                k = min(len(provs), 1 + g.choose('extra', 2))
                tos = provs[-k:] if provs else []
            elif shape == 'wide':
                tos = provs[:1] if provs and g.flip('w', 3, 4) else []
            elif shape == 'diamond':
                tos = g.sample('dm', provs, min(len(provs), 2))
            else:
                tos = g.sample('rnd', provs, g.randint('fanin', 0, min(len(provs), 4)))
            uses = [{'to': t, 'spell': g.choose('uspell', 4), 'form': g.choose('uform', 4),
                     'only': g.flip('only')} for t in sorted(tos)]
            nodes.append({'id': i, 'kind': kind, 'uses': uses, 'stemspell': g.choose('stem', 3),
                          'modspell': g.choose('modsp', 4), 'ext': g.pick('ext', ['.f90', '.F90', '.f90']),
                          'include': None, 'intrinsic': g.flip('intr', 1, 5), 'salt': 0,
                          'semicolon_use': g.flip('semiuse', 1, 6)})
        headers = []
        if g.flip('hdr', 1, 3):
            for hid in range(g.randint('nh', 1, 2)):
                user = g.pick('huser', nodes[1:] or nodes)
                provs = [m['id'] for m in nodes if m['kind'] == 'module' and m['id'] < user['id']]
                if not provs or user['include'] is not None:
                    continue
                tos = g.sample('hto', provs, g.randint('hn', 1, min(2, len(provs))))
                headers.append({'id': len(headers),
                                'name': f'h{len(headers)}' + g.pick('hext', ['.intfb.h', '.h']),
                                'uses': [{'to': t, 'spell': g.choose('hspell', 4)} for t in sorted(tos)]})
                user['include'] = headers[-1]['id']
        ids = [m['id'] for m in nodes]
        if g.flip('subsetobjs', 1, 4) and n > 2:
            objs = g.sample('objs', ids, g.randint('nobjs', 1, n))
        else:
            objs = g.shuffled('objs', ids)
        fclass = g.weighted('fclass', [('none', 6), ('fail', 2), ('stall', 2)])
        deps = model_deps({'nodes': nodes, 'headers': headers})
        built = sorted(closure(objs, deps))
        rebuild = None
        if fclass == 'none' and g.flip('rebuild', 1, 4):
            rebuild = {'edits': sorted(g.sample('edits', built, g.randint('nedits', 1, min(3, len(built))))),
                       'reuse': g.pick('reuse', ['lib', 'lib', 'recreate']), 'first_fails': None}
            if g.flip('firstfails', 1, 3):
                # the first build breaks on one (edited) object, the source is repaired, the same Lib rebuilt
                rebuild['first_fails'] = node_name(nodes[g.pick('ffobj', rebuild['edits'])])
        scen = {
            'rebuild': rebuild,
            'nodes': nodes, 'headers': headers, 'objs': objs,
            'workers': g.pick('workers', [1, 2, 2, 3, 4, 4, 8, 16] if big else [1, 2, 2, 3, 4, 8]),
            'shared': g.flip('shared'),
            'stale_mods': g.flip('stale', 1, 4),
            'fail': node_name(nodes[g.pick('failobj', built)]) if fclass == 'fail' else None,
            'stall': node_name(nodes[g.pick('stallobj', built)]) if fclass == 'stall' else None,
            'nx_random': g.flip('nxr', 3, 4),
            'glob_objs': False,
        }
        return scen

    def describe(self, scenario):
        deps = model_deps(scenario)
        return {'objects': len(scenario['nodes']), 'edges': {str(k): sorted(v) for k, v in deps.items() if v},
                'objs': scenario['objs'], 'workers': scenario['workers'], 'fail': scenario['fail'],
                'stall': scenario['stall'], 'headers': len(scenario['headers']),
                'stale_mods': scenario['stale_mods'], 'nx_random': scenario['nx_random'],
                'rebuild': scenario.get('rebuild')}

    # -- shrinking ------------------------------------------------------------
    def shrink(self, scenario, prop):
        s = scenario
        used = {u['to'] for n in s['nodes'] for u in n['uses']} | \
               {u['to'] for h in s['headers'] for u in h['uses']}
        for n in s['nodes']:
            # drop a node together with every reference to it
            c = self.clone(s)
            nid = n['id']
            c['nodes'] = [m for m in c['nodes'] if m['id'] != nid]
            if len(c['nodes']) < 1:
                continue
            for m in c['nodes']:
                m['uses'] = [u for u in m['uses'] if u['to'] != nid]
            for h in c['headers']:
                h['uses'] = [u for u in h['uses'] if u['to'] != nid]
            c['objs'] = [o for o in c['objs'] if o != nid]
            if not c['objs']:
                continue
            if c.get('rebuild'):
                c['rebuild']['edits'] = [e for e in c['rebuild']['edits'] if e != nid]
                if not c['rebuild']['edits']:
                    continue
            if c['fail'] == node_name(n) or c['stall'] == node_name(n):
                continue
            yield c
        for ni, n in enumerate(s['nodes']):
            for ui in range(len(n['uses'])):
                c = self.clone(s)
                del c['nodes'][ni]['uses'][ui]
                yield c
            if n.get('include') is not None:
                c = self.clone(s)
                c['nodes'][ni]['include'] = None
                yield c
            if n.get('intrinsic'):
                c = self.clone(s)
                c['nodes'][ni]['intrinsic'] = False
                yield c
        if len(s['objs']) > 1:
            for i in range(len(s['objs'])):
                c = self.clone(s)
                del c['objs'][i]
                yield c
        for w in (2, 3):
            if s['workers'] > w:
                c = self.clone(s)
                c['workers'] = w
                yield c
        for key in ('stale_mods', 'shared', 'nx_random'):
            if s[key]:
                c = self.clone(s)
                c[key] = False
                yield c
        for key in ('fail', 'stall', 'rebuild'):
            if s.get(key):
                c = self.clone(s)
                c[key] = None
                yield c
        if s.get('rebuild'):
            for i in range(len(s['rebuild']['edits'])):
                if len(s['rebuild']['edits']) > 1:
                    c = self.clone(s)
                    del c['rebuild']['edits'][i]
                    yield c
        _ = used

    # -- execution ------------------------------------------------------------
    def _materialise(self, scenario, root, flow):
        src = root / 'src'
        inc = root / 'inc'
        src.mkdir(parents=True)
        inc.mkdir()
        by_id = {n['id']: n for n in scenario['nodes']}
        heads = {h['id']: h for h in scenario['headers']}
        for n in scenario['nodes']:
            f = src / (file_stem(n) + n['ext'])
            f.write_text(render_node(n, by_id, heads))
            flow.stamp(f)
        for h in scenario['headers']:
            f = inc / h['name']
            f.write_text(render_header(h, by_id))
            flow.stamp(f)
        return src, inc

    def _reset_loki(self):
        self.O.Obj.clear_cache()
        self.HD.Header._Header__xnew_cached_.cache_clear()
        self.W._initialized = True

    def _flow(self, scenario, run, root, tag, workers, record):
        """
        Drive the real Builder/Lib through the scenario's build steps in its own
        directory tree.  Returns [(BuildState, exception or None), ...], one per
        build step.
        """
        global STATE, FLOW  # pylint: disable=global-statement
        from loki.jit_build import Builder, Lib, Obj  # pylint: disable=import-outside-toplevel
        self._reset_loki()
        flow = Flow()
        FLOW = flow
        src, inc = self._materialise(scenario, root, flow)
        bdir = root / 'build'
        bdir.mkdir()
        by_id = {n['id']: n for n in scenario['nodes']}
        heads = {h['id']: h for h in scenario['headers']}
        if scenario['stale_mods']:
            # left-overs of an earlier build of *older* sources: every .mod exists
            # already, with outdated content; no object files
            for n in scenario['nodes']:
                if n['kind'] == 'module':
                    f = bdir / f'{node_name(n)}.mod'
                    f.write_text('stale')
                    os_utime_old(f)
            run.probe('stale_mod_present')
        libfile = bdir / ('libsim.so' if scenario['shared'] else 'libsim.a')
        steps = []

        def paths():
            return [src / (file_stem(by_id[i]) + by_id[i]['ext']) for i in scenario['objs']]

        def one(builder, lib, fail=scenario['fail']):
            global STATE  # pylint: disable=global-statement
            st = BuildState(run, tag, fail=fail, stall=scenario['stall'], record=record)
            STATE = st
            err = None
            try:
                lib.build(builder=builder, logger=self.logger)
            except (pool.SimDeadlock, pool.SimStepCap) as e:
                err = e
            except Exception as e:  # pylint: disable=broad-except
                err = e
            finally:
                STATE = None
            st.lib = libfile.read_text() if libfile.exists() else None
            steps.append((st, err))
            return err

        try:
            builder = Builder(source_dirs=src, include_dirs=inc, build_dir=bdir, workers=workers,
                              logger=self.logger)
            lib = Lib(name='sim', objs=[Obj(source_path=p) for p in paths()], shared=scenario['shared'])
            rb = scenario.get('rebuild')
            err = one(builder, lib, fail=(rb or {}).get('first_fails') or scenario['fail'])
            if rb and (err is None or rb.get('first_fails')):
                if record:
                    run.probe('rebuild_steps')
                    run.event('edit', tuple(rb['edits']))
                for i in rb['edits']:
                    n = dict(by_id[i], salt=by_id[i].get('salt', 0) + 1)
                    f = src / (file_stem(n) + n['ext'])
                    f.write_text(render_node(n, by_id, heads))
                    flow.stamp(f)
                    # Obj caches the source text it has read; a user editing a file and
                    # rebuilding in the same process relies on the documented reset
                    # only where Loki offers one -- none for the text, so it is not part
                    # of the oracle (content is judged through the stub's reads)
                # what the documented mtime rule says must be compiled now: no object file yet, or the
                # source was written later than the object file
                expect = []
                for n in scenario['nodes']:
                    srcf = src / (file_stem(n) + n['ext'])
                    of = bdir / f'{node_name(n)}.o'
                    if not of.exists() or srcf.stat().st_mtime >= of.stat().st_mtime:
                        expect.append(node_name(n))
                # ... unless the library file is newer than the sources of all objects listed for it, in which
                # case the documented library-level rule skips the whole build
                libf = bdir / ('libsim.so' if scenario['shared'] else 'libsim.a')
                if libf.exists() and libf.stat().st_mtime > max(p.stat().st_mtime for p in paths()):
                    expect = []
                flow.expect_rebuild = expect
                if rb['reuse'] == 'recreate':
                    builder = Builder(source_dirs=src, include_dirs=inc, build_dir=bdir, workers=workers,
                                      logger=self.logger)
                    lib = Lib(name='sim', objs=[Obj(source_path=p) for p in paths()], shared=scenario['shared'])
                one(builder, lib)
        finally:
            FLOW = None
            STATE = None
        if len(steps) > 1:
            steps[1][0].expect = getattr(flow, 'expect_rebuild', None)
        return steps

    def execute(self, scenario, run):
        root = run.scratch
        patches = Patches()
        sim = pool.Sim(run, max_steps=8000, dispatch_latencies=LATENCIES, submit_delays=SUBMIT_DELAYS)
        pool.install(sim)
        try:
            patches.set(self.W, 'ProcessPoolExecutor', pool.SimExecutor)
            patches.set(self.W, 'Manager', pool.SimManager)
            patches.set(self.W, 'QueueListener', pool.NoListener)
            patches.set(self.W, '_initialized', True)
            patches.set(self.U, 'run', sim_run)
            patches.set(self.LB, 'tqdm', lambda it, *a, **k: it)
            patches.set(self.LB, 'nx', NxProxy(run, enabled=scenario['nx_random']))
            # serial reference: the same real code, one worker, no queue
            ref = self._flow(scenario, run, root / 'serial', 'serial', 1, record=False)
            t_par0 = sim.now
            par = self._flow(scenario, run, root / 'par', 'par', scenario['workers'], record=True)
        finally:
            try:
                sim.shutdown()
            finally:
                pool.uninstall()
                patches.undo()
                self._reset_loki()
        if not (scenario['fail'] or scenario['stall']) and scenario['workers'] > 1 and \
                all(e is None for _, e in par):
            # bounded liveness: never slower than running everything back to back
            ntasks = sum(1 for st, _ in par for kind, _o in st.events if kind == 'cstart')
            bound = sum(st.service_total for st, _ in par) + \
                (ntasks + len(par)) * (max(LATENCIES) + max(SUBMIT_DELAYS)) + 1.0
            if sim.now - t_par0 > bound:
                run.violate('too-slow', f'build took {sim.now - t_par0} virtual s, serial bound {bound}')
        for k, (st, err) in enumerate(ref):
            self._oracle(scenario, run, sim, st, err, 'serial', k)
        for k, (st, err) in enumerate(par):
            self._oracle(scenario, run, sim, st, err, 'par', k)
        if len(ref) != len(par) and not (par and queue_timeout(*par[-1])):
            run.violate('outcome-differs', f'serial flow ran {len(ref)} build steps, parallel {len(par)}')
        for k, ((rst, rerr), (st, err)) in enumerate(zip(ref, par)):
            # same library as a serial build
            if k > 0 and (scenario.get('rebuild') or {}).get('first_fails'):
                continue        # how far the failed first build got legitimately differs between serial and parallel
            if err is None and rerr is None and st.lib != rst.lib:
                run.violate('lib-differs', f'build step {k}: parallel library {st.lib!r} != serial library '
                                           f'{rst.lib!r}')
            if (err is None) != (rerr is None) and not scenario['stall'] and \
                    not isinstance(err, (pool.SimDeadlock, pool.SimStepCap)) and not queue_timeout(st, err):
                run.violate('outcome-differs', f'build step {k}: serial build: {rerr!r}; parallel build: {err!r}')
        first_fails = bool((scenario.get('rebuild') or {}).get('first_fails'))
        deps_ = model_deps(scenario)
        reach = {node_name(n) for n in scenario['nodes'] if n['id'] in closure(scenario['objs'], deps_)}
        for tag, flowsteps in (('serial', ref), ('par', par)):
            if len(flowsteps) > 1 and flowsteps[1][1] is None and getattr(flowsteps[1][0], 'expect', None) is not None:
                st2 = flowsteps[1][0]
                got = sorted({o for kind, o in st2.events if kind == 'cstart'})
                want = sorted(set(st2.expect) & reach)
                if got != want:
                    run.violate('rebuild-set-wrong', f'[{tag}] rebuild after editing {scenario["rebuild"]["edits"]}'
                                                     f'{" (first build had failed)" if first_fails else ""}: objects '
                                                     f'whose source is newer than their object file (or that have '
                                                     f'none): {want}; recompiled: {got}')

    # -- oracle -----------------------------------------------------------------
    def _oracle(self, scenario, run, sim, st, err, tag, step=0):
        deps = model_deps(scenario)
        by_id = {n['id']: n for n in scenario['nodes']}
        name = {i: node_name(n) for i, n in by_id.items()}
        expected = closure(scenario['objs'], deps)
        ev = st.events
        starts = {}
        ends = {}
        for k, (kind, obj) in enumerate(ev):
            if kind == 'cstart':
                starts.setdefault(obj, []).append(k)
            elif kind == 'cend':
                ends.setdefault(obj, []).append(k)
        fail = st.fail
        faulty = bool(fail or scenario['stall']) and tag == 'par' or (bool(fail) and tag == 'serial')
        if isinstance(err, pool.SimStepCap):
            raise HarnessError(f'step cap hit in build simulation: {err}')
        if isinstance(err, pool.SimDeadlock):
            run.violate('hang', f'[{tag}] build never finishes: {err}')
            return
        # (1) each object compiled at most once -- exactly once unless the build was cut short
        for i in expected:
            c = len(starts.get(name[i], []))
            if c > 1:
                run.violate('compiled-twice', f'[{tag}] {name[i]} compiled {c} times')
            if c == 0 and err is None and step == 0:
                run.violate('not-compiled', f'[{tag}] {name[i]} never compiled but build reported success')
        for o in starts:
            if o not in {name[i] for i in expected}:
                run.violate('compiled-unrelated', f'[{tag}] {o} compiled though not in the dependency closure')
        # (2) dependency order: end(provider) < start(user)
        for i in expected:
            for s_idx in starts.get(name[i], []):
                for p in deps[i]:
                    pe = ends.get(name[p], [])
                    if step > 0 and not starts.get(name[p]):
                        continue    # provider not rebuilt in this step: its .mod is there from before
                    if not pe or min(pe) > s_idx:
                        run.violate('dep-order', f'[{tag}] {name[i]} started compiling at event {s_idx} before '
                                                 f'its provider {name[p]} finished '
                                                 f'({"never" if not pe else min(pe)})')
        links = [k for k, (kind, _) in enumerate(ev) if kind == 'link']
        attempts = [k for k, (kind, _) in enumerate(ev) if kind in ('link', 'lfail')]
        fails = [k for k, (kind, _) in enumerate(ev) if kind == 'cfail']
        if attempts and fails and min(fails) < max(attempts):
            run.violate('linked-after-failure', f'[{tag}] link attempted at event {max(attempts)} although the '
                                                f'compile at event {min(fails)} had failed')
        if err is None:
            # (3) link exactly once, after every compile has ended
            if step > 0 and not links:
                pass
            elif len(links) != 1:
                run.violate('link-count', f'[{tag}] {len(links)} link steps in a successful build')
            else:
                last_c = max([k for k, (kind, _) in enumerate(ev) if kind in ('cstart', 'cend', 'cfail')],
                             default=-1)
                if last_c > links[0]:
                    run.violate('link-early', f'[{tag}] link at event {links[0]} before compile event {last_c}')
            if any(kind == 'cfail' for kind, _ in ev):
                run.violate('error-swallowed', f'[{tag}] a compile failed but the build reported success')
        else:
            if links:
                run.violate('linked-after-failure', f'[{tag}] build raised {err!r} but a library was linked')
            if queue_timeout(st, err):
                # Loki waits a fixed DEFAULT_TIMEOUT for each task from the moment it starts waiting, queueing
                # time included: >= that much compile work had been started, the timeout is the documented outcome
                run.probe('timeout_by_queueing')
            elif not faulty:
                run.violate('build-failed', f'[{tag}] fault-free build raised {type(err).__name__}: '
                                            f'{str(err)[:300]}')
            elif fail and not scenario['stall']:
                if not isinstance(err, subprocess.CalledProcessError):
                    run.violate('wrong-error', f'[{tag}] injected compile error surfaced as {err!r}')
            elif scenario['stall'] and not isinstance(err, (TimeoutError, subprocess.CalledProcessError)):
                run.violate('wrong-error', f'[{tag}] stalled worker surfaced as {err!r}')
            if scenario['stall'] and isinstance(err, subprocess.CalledProcessError):
                # a stall may only ever produce a timeout, never a compile error
                run.violate('build-failed', f'[{tag}] compile error under stall-only faults: '
                                            f'{(err.output or b"").decode()[:200]}')
