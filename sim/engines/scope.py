"""
scopeworld -- C12 (symbol tables as scoped case-insensitive mappings) and
C13 (symbols classified by declared type, sharing it by scope).

History class (DESIGN R5) plus GC perturbation: generated operation sequences
issued against *shared* mutable state (nested tables, many symbols on one
scope), checked step by step against a small reference model (dict chains).
The simulator owns the order of operations, the spelling of every key, the
re-parenting steps and the points at which the cyclic GC runs (or that it never
runs).  All code under test is real; nothing is stubbed.
"""
import gc

from sim.engines.base import Engine
from sim.kernel import HarnessError

BASES = ('a', 'nlev', 'tmp')
DTYPES = ('integer', 'real', 'logical', 'deferred')


def spell(base, k):
    v = (base.lower(), base.upper(), base.capitalize(), base[:-1].lower() + base[-1:].upper())
    return v[k % 4]


def fold(name):
    return name.lower().partition('(')[0]


class _Missing:
    def __repr__(self):
        return '<missing>'


MISSING = _Missing()


class ScopeEngine(Engine):
    name = 'scopeworld'
    props = ('C12', 'C13')
    real = ('loki.types.SymbolTable', 'loki.types.Scope (declare/update/get_type/get_symbol_scope/_reset_parent)',
            'loki.types.SymbolAttributes', 'loki.tools.CaseInsensitiveDict', 'loki.expression.symbols.Variable '
            'factory, TypedSymbol.type/clone/rescope (C13)')
    stubs = ('nothing is stubbed; the simulator owns operation order, key spelling, re-parenting steps and GC points',)
    fault_kinds = ('gc_injected', 'gc_disabled_runs')
    probes = ('reparent_ops', 'clone_ops', 'mixed_spelling_delete', 'lookup_through_parent', 'mutate_returned',
              'mutate_inserted', 'type_updates_seen_by_n_symbols', 'detached_symbols', 'derived_type_members')
    nontrivial_rule = ('a history is non-trivial if it contains >= 2 mutating operations on >= 2 distinct '
                       'tables/scopes (C12) or >= 1 type update while >= 2 symbols are live (C13); distinct = '
                       'distinct digest of the (operation, result) history')
    hashseed_independent = True

    def setup(self):
        import loki  # pylint: disable=import-outside-toplevel,unused-import

    # ------------------------------------------------------------------ gen
    def gen(self, g, prop, tier):
        n = g.randint('nops', 4, 60 if tier == 'thorough' else 36)
        gcmode = g.pick('gc', ['off', 'inject', 'inject', 'default'])
        ops = []
        if prop == 'C12':
            for _ in range(n):
                ops.append(self._gen_c12_op(g))
        else:
            for _ in range(n):
                ops.append(self._gen_c13_op(g))
        return {'gc': gcmode, 'ops': ops}

    @staticmethod
    def _key(g):
        base = g.pick('base', BASES)
        k = spell(base, g.choose('spell', 4))
        if g.flip('dims', 1, 8):
            k += '(1:n)'
        return k

    @staticmethod
    def _val(g):
        v = {'dtype': g.pick('dtype', DTYPES)}
        if g.flip('intent', 1, 3):
            v['intent'] = g.pick('iv', ['in', 'out', 'inout'])
        if g.flip('kind', 1, 4):
            v['kind'] = g.pick('kv', ['jprb', 'jpim'])
        if g.flip('shape', 1, 4):
            v['shape'] = g.pick('sv', [['n'], ['n', 'm']])
        if g.flip('param', 1, 6):
            v['parameter'] = True
        return v

    def _gen_c12_op(self, g):
        kind = g.weighted('op', [
            ('new_scope', 4), ('new_table', 2), ('new_cidict', 1),
            ('set', 8), ('setdefault', 3), ('update', 3), ('get', 4), ('getitem', 4), ('lookup', 6),
            ('contains', 5), ('del', 6), ('pop', 5), ('clone', 3), ('reparent_table', 2), ('reparent_scope', 4),
            ('declare', 4), ('scope_update', 4), ('get_type', 4), ('get_symbol_scope', 3),
            ('mutate_returned', 3), ('mutate_inserted', 2), ('gc', 3), ('clear', 1), ('popitem', 1),
            ('ci_set', 2), ('ci_get', 2), ('ci_del', 2), ('ci_pop', 2), ('ci_contains', 2), ('ci_setdefault', 1),
            ('ci_update', 1),
        ])
        op = {'op': kind, 't': g.choose('t', 8)}
        if kind == 'gc':
            op['gen'] = g.pick('gen', [0, 0, 0, 1, 1, 2])
        if kind in ('new_scope', 'new_table', 'reparent_table', 'reparent_scope', 'clone'):
            op['p'] = g.pick('p', [None, 0, 1, 2, 3, 4])
            if kind == 'clone':
                op['with_parent'] = g.flip('wp', 1, 3)
        if kind in ('set', 'setdefault', 'get', 'getitem', 'lookup', 'contains', 'del', 'pop', 'declare',
                    'scope_update', 'get_type', 'get_symbol_scope', 'mutate_returned', 'mutate_inserted',
                    'ci_set', 'ci_get', 'ci_del', 'ci_pop', 'ci_contains', 'ci_setdefault'):
            op['k'] = self._key(g) if not kind.startswith('ci_') else spell(g.pick('base', BASES), g.choose('sp', 4))
        if kind in ('set', 'setdefault', 'declare', 'scope_update', 'mutate_inserted'):
            op['v'] = self._val(g)
            if kind == 'setdefault' and g.flip('nodefault', 1, 4):
                op['v'] = None
        if kind in ('update', 'ci_update'):
            op['items'] = [[self._key(g) if kind == 'update' else spell(g.pick('base', BASES), g.choose('sp', 4)),
                            self._val(g) if kind == 'update' else g.choose('civ', 100)]
                           for _ in range(g.randint('nitems', 1, 3))]
            op['as_dict'] = g.flip('asdict')
        if kind in ('lookup', 'get_type'):
            op['recursive'] = g.flip('rec', 3, 4)
        if kind in ('declare', 'scope_update', 'get_type'):
            op['fail'] = g.flip('fail')
        if kind in ('pop', 'ci_pop', 'get', 'ci_get'):
            op['default'] = g.flip('hasdefault')
        if kind in ('ci_set', 'ci_setdefault'):
            op['v'] = g.choose('civ', 100)
        if kind == 'mutate_returned':
            op['via'] = g.pick('via', ['getitem', 'get', 'lookup', 'get_type'])
        return op

    def _gen_c13_op(self, g):
        kind = g.weighted('op', [
            ('new_scope', 3), ('declare', 6), ('mkvar', 10), ('update_table', 6), ('update_scope', 3),
            ('update_via_clone', 4), ('clone', 4), ('detach', 3), ('rescope', 4), ('gc', 2), ('setter', 2),
            ('declare_dt', 3), ('mkmember', 5),
        ])
        op = {'op': kind, 's': g.choose('s', 5), 'i': g.choose('i', 12)}
        if kind == 'gc':
            op['gen'] = g.pick('gen', [0, 0, 0, 1, 1, 2])
        op['name'] = spell(g.pick('base', BASES), g.choose('spell', 4))
        if kind == 'new_scope':
            op['p'] = g.pick('p', [None, 0, 1, 2])
        if kind in ('declare', 'mkvar', 'update_table', 'update_scope', 'update_via_clone', 'clone', 'setter'):
            op['type'] = g.pick('type', ['int', 'real', 'real_shape', 'derived', 'proc', 'deferred', 'int_kind',
                                         'logical'])
        if kind in ('mkvar', 'clone'):
            op['has_type'] = g.flip('hastype')
            op['scoped'] = g.flip('scoped', 3, 4)
            op['dims'] = g.flip('dims', 1, 4)
        if kind == 'clone':
            op['newscope'] = g.pick('ns', ['keep', 'other', 'none'])
            op['rename'] = spell(g.pick('rbase', BASES), g.choose('rspell', 4)) if g.flip('rename', 1, 3) else None
        if kind == 'declare_dt':
            op['typedef'] = g.flip('typedef', 2, 3)
        if kind == 'mkmember':
            op['member'] = g.pick('member', ['val', 'VAL', 'arr', 'Arr', 'nope'])
            op['dims'] = g.flip('mdims', 1, 5)
        return op

    def describe(self, scenario):
        return {'gc': scenario['gc'], 'ops': scenario['ops'][:40], 'n_ops': len(scenario['ops'])}

    def shrink(self, scenario, prop):
        ops = scenario['ops']
        # chunks first, then single operations
        n = len(ops)
        size = n // 2
        while size >= 1:
            for i in range(0, n, size):
                c = self.clone(scenario)
                del c['ops'][i:i + size]
                if c['ops']:
                    yield c
            size //= 2
        if scenario['gc'] != 'default':
            c = self.clone(scenario)
            c['gc'] = 'default'
            yield c
        for i, op in enumerate(ops):
            for key in ('v',):
                if isinstance(op.get(key), dict) and len(op[key]) > 1:
                    c = self.clone(scenario)
                    c['ops'][i][key] = {'dtype': op[key]['dtype']}
                    yield c

    # -------------------------------------------------------------- execute
    def execute(self, scenario, run):
        gc_was = gc.isenabled()
        if scenario['gc'] in ('off', 'inject'):
            gc.disable()
            if scenario['gc'] == 'off':
                run.probe('gc_disabled_runs')
        try:
            if run.prop == 'C12':
                C12World(run, scenario).play()
            else:
                C13World(run, scenario).play()
        finally:
            if gc_was:
                gc.enable()


# ---------------------------------------------------------------------------
# C12
# ---------------------------------------------------------------------------

def mk_attrs(v):
    from loki.types import BasicType, SymbolAttributes  # pylint: disable=import-outside-toplevel
    kw = {k: (tuple(x) if isinstance(x, list) else x) for k, x in v.items() if k != 'dtype'}
    dt = BasicType.DEFERRED if v['dtype'] == 'deferred' else BasicType.from_str(v['dtype'])
    return SymbolAttributes(dt, **kw)


def snap(a):
    """Value snapshot of a SymbolAttributes (independent of identity)."""
    if a is None:
        return None
    d = dict(a.__dict__)
    dt = d.pop('dtype')
    return (str(dt),) + tuple(sorted((k, repr(x)) for k, x in d.items()))


def model_val(v):
    return snap(mk_attrs(v))


class Ent:
    """A table-like entity: scope-owned table, free-standing table."""

    def __init__(self, kind, table, scope=None):
        self.kind = kind
        self.table = table
        self.scope = scope
        self.model = {}          # folded name -> snapshot
        self.parent = None       # Ent or None


class C12World:
    def __init__(self, run, scenario):
        from loki.types import Scope, SymbolTable  # pylint: disable=import-outside-toplevel
        from loki.tools import CaseInsensitiveDict  # pylint: disable=import-outside-toplevel
        self.Scope, self.SymbolTable, self.CID = Scope, SymbolTable, CaseInsensitiveDict
        self.run = run
        self.scenario = scenario
        self.ents = []
        self.cids = []           # (obj, model dict)
        self.keep = []           # strong refs to everything the property speaks about
        self.mutating = 0
        self.touched = set()

    # -- helpers ---------------------------------------------------------------
    def ent(self, i):
        return self.ents[i % len(self.ents)] if self.ents else None

    def pent(self, p):
        if p is None or not self.ents:
            return None
        return self.ents[p % len(self.ents)]

    def chain_lookup(self, e, k, recursive=True):
        f = fold(k)
        seen = 0
        while e is not None and seen < 64:
            if f in e.model:
                return e.model[f]
            if not recursive:
                return None
            e = e.parent
            seen += 1
        return None

    def is_ancestor(self, a, e):
        """a is e or an ancestor of e (model)"""
        n = 0
        while e is not None and n < 64:
            if e is a:
                return True
            e = e.parent
            n += 1
        return False

    def bad(self, cls, op, detail, sig=None):
        self.run.violate(cls, f'op #{self.step} {op}: {detail}', sig=sig)

    def outcome(self, fn):
        try:
            return ('ok', fn())
        except KeyError:
            return ('KeyError', None)
        except ValueError:
            return ('ValueError', None)

    # -- state invariant ------------------------------------------------------------
    def check_state(self, op):
        for idx, e in enumerate(self.ents):
            real = {k: snap(v) for k, v in dict.items(e.table)}
            if real != e.model:
                self.bad('table-state', op, f'table {idx} holds {real} but the mapping model says {e.model}')
                e.model = dict(real)      # resynchronise: report each divergence once
            exp_parent = e.parent.table if e.parent is not None else None
            if e.table.parent is not exp_parent:
                self.bad('parent-link', op, f'table {idx}: parent link is '
                                            f'{"set" if e.table.parent is not None else "None"} but should be '
                                            f'{"table of entity " + str(self.ents.index(e.parent)) if e.parent else "None"}',
                         sig='parent-link:reset-parent-none' if op.get('op') == 'reparent_scope' and
                         exp_parent is None else None)
                # resynchronise the real object so that one defect is reported once
                e.table.parent = exp_parent
            if e.scope is not None:
                exp_sp = e.parent.scope if e.parent is not None else None
                if e.scope.parent is not exp_sp:
                    self.bad('scope-parent', op, f'scope {idx}: parent is not the expected scope')
            for base in BASES:
                for sp in range(4):
                    k = spell(base, sp)
                    if (k in e.table) != (fold(k) in e.model):
                        self.bad('membership', op, f'{k!r} in table {idx} is {k in e.table}, model says '
                                                   f'{fold(k) in e.model}')
                    r = snap(e.table.lookup(k))
                    m = self.chain_lookup(e, k)
                    if r != m:
                        self.bad('lookup', op, f'table {idx}: lookup({k!r}) -> {r}, innermost declaration in '
                                               f'the model is {m}')
        for idx, (obj, model) in enumerate(self.cids):
            if dict(obj.items()) != model:
                self.bad('cidict-state', op, f'CaseInsensitiveDict {idx} holds {dict(obj.items())}, model {model}')
                model.clear()
                model.update(dict(obj.items()))

    # -- the history ------------------------------------------------------------------
    def play(self):
        run = self.run
        for self.step, op in enumerate(self.scenario['ops']):
            res = self.apply(op)
            run.event(op['op'], op.get('t'), op.get('k'), repr(res)[:120])
            self.check_state(op)
            if len(run.violations) > 8:
                break
        run.steps += len(self.scenario['ops'])
        run.nontrivial = self.mutating >= 2 and len(self.touched) >= 2

    def apply(self, op):  # noqa: C901  pylint: disable=too-many-branches,too-many-statements,too-many-return-statements
        kind = op['op']
        run = self.run
        if kind == 'gc':
            if self.scenario['gc'] == 'inject':
                gc.collect(op.get('gen', 0))
                run.probe('gc_injected')
            return None
        if kind == 'new_scope':
            if len(self.ents) >= 6:
                return None
            p = self.pent(op['p'])
            if p is not None and p.scope is None:
                p = None
            s = self.Scope(parent=p.scope if p else None)
            e = Ent('scope', s.symbol_attrs, s)
            e.parent = p
            self.ents.append(e)
            self.keep.append(s)
            return len(self.ents) - 1
        if kind == 'new_table':
            if len(self.ents) >= 6:
                return None
            p = self.pent(op['p'])
            t = self.SymbolTable(parent=p.table if p else None)
            e = Ent('free', t)
            e.parent = p
            self.ents.append(e)
            self.keep.append(t)
            return len(self.ents) - 1
        if kind == 'new_cidict':
            if len(self.cids) < 2:
                self.cids.append((self.CID(), {}))
            return None
        if kind.startswith('ci_'):
            return self.apply_ci(op)
        e = self.ent(op['t'])
        if e is None:
            return None
        t = e.table
        idx = self.ents.index(e)
        if kind == 'set':
            v = mk_attrs(op['v'])
            t[op['k']] = v
            e.model[fold(op['k'])] = snap(v)
            self.mut(idx)
            return None
        if kind == 'setdefault':
            if op['v'] is None:
                r = t.setdefault(op['k'])
                exp = snap(mk_attrs({'dtype': 'deferred'}))
            else:
                v = mk_attrs(op['v'])
                r = t.setdefault(op['k'], v)
                exp = snap(v)
            e.model.setdefault(fold(op['k']), exp)
            if r is not None and hasattr(r, 'clone'):
                # whatever an accessor hands out must be an independent copy (checked by the state check
                # that follows every operation)
                run.probe('mutate_returned')
                r.intent = 'MUTATED'
                r.sim_marker = 42
            self.mut(idx)
            return None
        if kind == 'update':
            items = [(k, mk_attrs(v)) for k, v in op['items']]
            t.update(dict(items) if op['as_dict'] else items)
            for k, v in (dict(items).items() if op['as_dict'] else items):
                e.model[fold(k)] = snap(v)
            self.mut(idx)
            return None
        if kind == 'getitem':
            r = self.outcome(lambda: snap(t[op['k']]))
            m = self.chain_lookup(e, op['k'], recursive=False)
            exp = ('ok', m) if m is not None else ('KeyError', None)
            if r != exp:
                self.bad('getitem', op, f'table[{op["k"]!r}] -> {r}, model {exp}')
            return r
        if kind == 'get':
            d = mk_attrs({'dtype': 'logical', 'intent': 'in'}) if op['default'] else None
            r = snap(t.get(op['k'], d) if op['default'] else t.get(op['k']))
            m = self.chain_lookup(e, op['k'], recursive=False)
            exp = m if m is not None else snap(d)
            if r != exp:
                self.bad('get', op, f'get({op["k"]!r}) -> {r}, model {exp}')
            return r
        if kind == 'lookup':
            r = snap(t.lookup(op['k'], recursive=op['recursive']))
            m = self.chain_lookup(e, op['k'], recursive=op['recursive'])
            if m is not None and fold(op['k']) not in e.model:
                run.probe('lookup_through_parent')
            if r != m:
                self.bad('lookup', op, f'lookup({op["k"]!r}, recursive={op["recursive"]}) -> {r}, model {m}')
            return r
        if kind == 'contains':
            r = op['k'] in t
            if r != (fold(op['k']) in e.model):
                self.bad('membership', op, f'{op["k"]!r} in table -> {r}, model {fold(op["k"]) in e.model}')
            return r
        if kind in ('del', 'pop'):
            present = fold(op['k']) in e.model
            member = op['k'] in t
            if present and op['k'] != fold(op['k']):
                run.probe('mixed_spelling_delete')
            if kind == 'del':
                def f():
                    del t[op['k']]
                r = self.outcome(f)
                exp = ('ok', None) if present else ('KeyError', None)
            else:
                d = mk_attrs({'dtype': 'logical'})
                r = self.outcome(lambda: snap(t.pop(op['k'], d) if op['default'] else t.pop(op['k'])))
                if present:
                    exp = ('ok', e.model[fold(op['k'])])
                else:
                    exp = ('ok', snap(d)) if op['default'] else ('KeyError', None)
            if r != exp:
                sig = None
                if member and present and r[0] == 'KeyError' or (kind == 'pop' and op.get('default') and
                                                                 present and r != exp):
                    sig = 'symboltable-delete-spelling'
                self.bad('delete', op, f'{kind}({op["k"]!r}) -> {r} although membership test says {member}; '
                                       f'mapping model expects {exp}', sig=sig)
            # the model always follows the mapping semantics
            e.model.pop(fold(op['k']), None)
            if r[0] == 'ok' and not (kind == 'pop' and not present):
                pass
            # resynchronise the real table with the model if deletion failed
            dict.pop(t, fold(op['k']), None)
            self.mut(idx)
            return r
        if kind == 'clear':
            t.clear()
            e.model.clear()
            self.mut(idx)
            return None
        if kind == 'popitem':
            r = self.outcome(lambda: t.popitem()[0])
            if r[0] == 'ok':
                if r[1] not in e.model:
                    self.bad('popitem', op, f'popitem returned key {r[1]!r} not in the model')
                e.model.pop(r[1], None)
            elif e.model:
                self.bad('popitem', op, 'KeyError on a non-empty table')
            self.mut(idx)
            return r[0]
        if kind == 'clone':
            if len(self.ents) >= 6:
                return None
            run.probe('clone_ops')
            p = self.pent(op['p']) if op['with_parent'] else None
            c = t.clone(parent=p.table) if p is not None else t.clone()
            ne = Ent('free', c)
            ne.model = dict(e.model)
            ne.parent = p if p is not None else e.parent
            self.ents.append(ne)
            self.keep.append(c)
            if {k: snap(v) for k, v in dict.items(c)} != e.model:
                self.bad('clone', op, 'clone differs from the original right after cloning')
            return len(self.ents) - 1
        if kind == 'reparent_table':
            if e.kind != 'free':
                return None
            p = self.pent(op['p'])
            if p is not None and self.is_ancestor(e, p):
                return None
            run.probe('reparent_ops')
            t.parent = p.table if p is not None else None
            e.parent = p
            self.mut(idx)
            return None
        if kind == 'reparent_scope':
            if e.scope is None:
                return None
            p = self.pent(op['p'])
            if p is not None and (p.scope is None or self.is_ancestor(e, p)):
                return None
            run.probe('reparent_ops')
            e.scope._reset_parent(p.scope if p is not None else None)
            e.parent = p
            self.mut(idx)
            return None
        if kind == 'declare':
            if e.scope is None:
                return None
            v = op['v']
            kw = {k: (tuple(x) if isinstance(x, list) else x) for k, x in v.items() if k != 'dtype'}
            present = fold(op['k']) in e.model
            r = self.outcome(lambda: e.scope.declare(op['k'], mk_attrs({'dtype': v['dtype']}).dtype,
                                                     fail=op['fail'], **kw))
            if op['fail'] and present:
                exp = 'ValueError'
            else:
                exp = 'ok'
                e.model[fold(op['k'])] = model_val(v)
            if r[0] != exp:
                self.bad('declare', op, f'declare({op["k"]!r}, fail={op["fail"]}) -> {r[0]}, expected {exp} '
                                        f'(declared before: {present})')
            self.mut(idx)
            return r[0]
        if kind == 'scope_update':
            if e.scope is None:
                return None
            v = op['v']
            kw = {k: (tuple(x) if isinstance(x, list) else x) for k, x in v.items()}
            kw['dtype'] = mk_attrs({'dtype': v['dtype']}).dtype
            present = fold(op['k']) in e.model
            r = self.outcome(lambda: e.scope.update(op['k'], fail=op['fail'], **kw))
            if op['fail'] and not present:
                exp = 'ValueError'
            else:
                exp = 'ok'
                # documented: existing attributes are kept, given ones overwrite
                old = e.model.get(fold(op['k']))
                attrs = dict(old[1:]) if old else {}
                for k, x in v.items():
                    if k != 'dtype':
                        attrs[k] = repr(tuple(x) if isinstance(x, list) else x)
                e.model[fold(op['k'])] = (str(mk_attrs({'dtype': v['dtype']}).dtype),) + tuple(sorted(attrs.items()))
            if r[0] != exp:
                self.bad('scope-update', op, f'update({op["k"]!r}, fail={op["fail"]}) -> {r[0]}, expected {exp}')
            self.mut(idx)
            return r[0]
        if kind == 'get_type':
            if e.scope is None:
                return None
            r = self.outcome(lambda: snap(e.scope.get_type(op['k'], recursive=op['recursive'], fail=op['fail'])))
            m = self.chain_lookup(e, op['k'], recursive=op['recursive'])
            exp = ('KeyError', None) if (m is None and op['fail']) else ('ok', m)
            if r != exp:
                self.bad('get-type', op, f'get_type({op["k"]!r}, recursive={op["recursive"]}, fail={op["fail"]}) '
                                         f'-> {r}, model {exp}')
            return r
        if kind == 'get_symbol_scope':
            if e.scope is None:
                return None
            r = e.scope.get_symbol_scope(op['k'])
            x = e
            n = 0
            while x is not None and fold(op['k']) not in x.model and n < 64:
                x = x.parent
                n += 1
            exp = x.scope if x is not None else None
            if r is not exp:
                self.bad('symbol-scope', op, f'get_symbol_scope({op["k"]!r}) returned the wrong scope '
                                             f'({"None" if r is None else "a scope"}, expected '
                                             f'{"None" if exp is None else "entity " + str(self.ents.index(x))})')
            return None if r is None else 'scope'
        if kind == 'mutate_returned':
            via = op['via']
            if via == 'get_type' and e.scope is None:
                via = 'lookup'
            try:
                if via == 'getitem':
                    o = t[op['k']]
                elif via == 'get':
                    o = t.get(op['k'])
                elif via == 'lookup':
                    o = t.lookup(op['k'])
                else:
                    o = e.scope.get_type(op['k'], fail=False)
            except KeyError:
                o = None
            if o is not None:
                run.probe('mutate_returned')
                o.intent = 'MUTATED'
                o.sim_marker = 42
                # the state check that follows every operation verifies that no table changed
            return via
        if kind == 'mutate_inserted':
            v = mk_attrs(op['v'])
            before = snap(v)
            t[op['k']] = v
            e.model[fold(op['k'])] = before
            v.intent = 'MUTATED-AFTER-INSERT'
            run.probe('mutate_inserted')
            self.mut(idx)
            return None
        raise HarnessError(f'unknown op {kind}')

    def mut(self, idx):
        self.mutating += 1
        self.touched.add(idx)

    def apply_ci(self, op):
        if not self.cids:
            return None
        obj, model = self.cids[op['t'] % len(self.cids)]
        kind = op['op']
        k = op.get('k')
        lk = k.lower() if k else None
        self.mutating += 1
        self.touched.add(('ci', op['t'] % len(self.cids)))
        if kind == 'ci_set':
            obj[k] = op['v']
            model[lk] = op['v']
            return None
        if kind == 'ci_get':
            r = obj.get(k, -1) if op['default'] else obj.get(k)
            exp = model.get(lk, -1 if op['default'] else None)
            if r != exp:
                self.bad('cidict-get', op, f'get({k!r}) -> {r}, model {exp}')
            return r
        if kind == 'ci_contains':
            r = k in obj
            if r != (lk in model):
                self.bad('cidict-membership', op, f'{k!r} in dict -> {r}, model {lk in model}')
            return r
        if kind in ('ci_del', 'ci_pop'):
            present = lk in model
            member = k in obj
            if kind == 'ci_del':
                def f():
                    del obj[k]
                r = self.outcome(f)
                exp = ('ok', None) if present else ('KeyError', None)
            else:
                r = self.outcome(lambda: obj.pop(k, -1) if op['default'] else obj.pop(k))
                exp = ('ok', model[lk]) if present else (('ok', -1) if op['default'] else ('KeyError', None))
            if r != exp:
                self.bad('cidict-delete', op, f'{kind}({k!r}) -> {r} although membership test says {member}; '
                                              f'mapping model expects {exp}',
                         sig='cidict-delete-spelling' if member and present else None)
            model.pop(lk, None)
            from collections import OrderedDict  # pylint: disable=import-outside-toplevel
            OrderedDict.pop(obj, lk, None)
            return r
        if kind == 'ci_setdefault':
            r = obj.setdefault(k, op['v'])
            exp = model.setdefault(lk, op['v'])
            if r != exp:
                self.bad('cidict-setdefault', op, f'setdefault({k!r}) -> {r}, model {exp}')
            return r
        if kind == 'ci_update':
            items = [(kk, v) for kk, v in op['items']]
            obj.update(dict(items) if op['as_dict'] else items)
            for kk, v in (dict(items).items() if op['as_dict'] else items):
                model[kk.lower()] = v
            return None
        raise HarnessError(f'unknown ci op {kind}')


# ---------------------------------------------------------------------------
# C13
# ---------------------------------------------------------------------------

class C13World:
    def __init__(self, run, scenario):
        from loki.types import (  # pylint: disable=import-outside-toplevel
            Scope, SymbolAttributes, BasicType, DerivedType, ProcedureType
        )
        from loki.expression import symbols as sym  # pylint: disable=import-outside-toplevel
        self.Scope, self.SA, self.BT, self.DT, self.PT, self.sym = \
            Scope, SymbolAttributes, BasicType, DerivedType, ProcedureType, sym
        self.run = run
        self.scenario = scenario
        self.scopes = []        # (Scope, parent index or None)
        self.syms = []          # dicts: obj, name, scope idx|None
        self.updates = 0
        self.members = []       # derived-type member symbols (kept alive, judged at creation only)
        # one shared derived type definition, in its own (strongly held) root scope
        from loki.ir import TypeDef, VariableDeclaration  # pylint: disable=import-outside-toplevel
        self.tdscope = Scope()
        self.typedef = TypeDef(name='my_type', body=(), parent=self.tdscope)
        val = sym.Variable(name='val', type=SymbolAttributes(BasicType.INTEGER), scope=self.typedef)
        arr = sym.Variable(name='arr', type=SymbolAttributes(BasicType.REAL, shape=(sym.IntLiteral(3),)),
                           scope=self.typedef)
        self.typedef._update(body=(VariableDeclaration(symbols=(val,)), VariableDeclaration(symbols=(arr,))))
        self.member_types = {'val': SymbolAttributes(BasicType.INTEGER),
                             'arr': SymbolAttributes(BasicType.REAL, shape=(sym.IntLiteral(3),))}

    def mk_type(self, t):
        SA, BT, sym = self.SA, self.BT, self.sym
        if t == 'int':
            return SA(BT.INTEGER)
        if t == 'int_kind':
            return SA(BT.INTEGER, kind=sym.Variable(name='jpim'), intent='in')
        if t == 'real':
            return SA(BT.REAL, intent='inout')
        if t == 'logical':
            return SA(BT.LOGICAL)
        if t == 'real_shape':
            return SA(BT.REAL, shape=(sym.IntLiteral(3), sym.IntLiteral(4)))
        if t == 'derived':
            return SA(self.DT(name='my_type'))
        if t == 'proc':
            return SA(self.PT(name='my_proc', is_function=False))
        if t == 'deferred':
            return SA(BT.DEFERRED)
        raise HarnessError(t)

    def expected_class(self, T, dims):
        sym = self.sym
        if T is not None and isinstance(T.dtype, self.PT):
            return sym.ProcedureSymbol
        if dims is not None or (T is not None and T.shape):
            return sym.Array
        if T is not None and T.dtype != self.BT.DEFERRED:
            return sym.Scalar
        return sym.DeferredTypeSymbol

    def chain(self, si):
        out = []
        n = 0
        while si is not None and n < 16:
            out.append(si)
            si = self.scopes[si][1]
            n += 1
        return out

    def bad(self, cls, op, detail):
        self.run.violate(cls, f'op #{self.step} {op}: {detail}')

    def types_now(self):
        return [snap(s['obj'].type) if s['obj'].type is not None else None for s in self.syms]

    def play(self):
        run = self.run
        for self.step, op in enumerate(self.scenario['ops']):
            res = self.apply(op)
            run.event(op['op'], op.get('s'), op.get('i'), op.get('name'), repr(res)[:100])
            if len(run.violations) > 8:
                break
        run.steps += len(self.scenario['ops'])
        run.nontrivial = self.updates >= 1 and len(self.syms) >= 2

    def new_symbol(self, op, obj, name, si):
        if len(self.syms) < 14:
            self.syms.append({'obj': obj, 'name': name, 'scope': si})

    def after_update(self, op, before, si, name, T):
        """The visibility oracle after the type recorded for ``name`` in scope ``si`` changed to T."""
        now = self.types_now()
        seen = 0
        for k, s in enumerate(self.syms):
            same_name = s['name'].lower() == name.lower()
            if s['scope'] is None:
                if now[k] != before[k]:
                    self.bad('unattached-changed', op, f'unattached symbol {s["name"]} changed its type from '
                                                       f'{before[k]} to {now[k]} after an update in a scope')
            elif s['scope'] == si and same_name:
                seen += 1
                if now[k] != snap(T):
                    self.bad('update-not-seen', op, f'symbol {s["name"]} attached to scope {si} reports {now[k]} '
                                                    f'after the type recorded there became {snap(T)}')
            elif not same_name or si not in self.chain(s['scope']):
                if now[k] != before[k]:
                    self.bad('unrelated-changed', op, f'symbol {s["name"]} (scope {s["scope"]}) changed type from '
                                                      f'{before[k]} to {now[k]} after an update of {name!r} in '
                                                      f'scope {si}')
        self.updates += 1
        if seen >= 2:
            self.run.probe('type_updates_seen_by_n_symbols')

    def apply(self, op):  # noqa: C901  pylint: disable=too-many-branches,too-many-statements,too-many-return-statements
        kind = op['op']
        sym = self.sym
        if kind == 'gc':
            if self.scenario['gc'] == 'inject':
                gc.collect(op.get('gen', 0))
                self.run.probe('gc_injected')
            return None
        if kind == 'new_scope':
            if len(self.scopes) >= 5:
                return None
            p = op['p'] % len(self.scopes) if (op['p'] is not None and self.scopes) else None
            self.scopes.append((self.Scope(parent=self.scopes[p][0] if p is not None else None), p))
            return len(self.scopes) - 1
        if not self.scopes:
            self.scopes.append((self.Scope(), None))
        si = op['s'] % len(self.scopes)
        scope = self.scopes[si][0]
        name = op['name']
        if kind == 'declare':
            T = self.mk_type(op['type'])
            before = self.types_now()
            scope.symbol_attrs[name] = T
            self.after_update(op, before, si, name, T)
            return None
        if kind == 'mkvar':
            T = self.mk_type(op['type']) if op['has_type'] else None
            dims = (sym.IntLiteral(1),) if op['dims'] else None
            sc = scope if op['scoped'] else None
            eff = T
            if T is None and sc is not None:
                eff = sc.symbol_attrs.lookup(name)
            before = self.types_now()
            kw = {'name': name}
            if sc is not None:
                kw['scope'] = sc
            if T is not None:
                kw['type'] = T
            if dims is not None:
                kw['dimensions'] = dims
            v = sym.Variable(**kw)
            exp = self.expected_class(eff, dims)
            if type(v) is not exp:  # pylint: disable=unidiomatic-typecheck
                self.bad('classification', op, f'Variable({name!r}, scoped={sc is not None}, type={snap(T)}, '
                                               f'dims={dims is not None}) with recorded type {snap(eff)} became '
                                               f'{type(v).__name__}, expected {exp.__name__}')
            if T is not None:
                if snap(v.type) != snap(T):
                    self.bad('type-after-create', op, f'symbol reports {snap(v.type)} after creation with {snap(T)}')
                if sc is not None:
                    # documented: scope + type overwrites the entry in the scope's table
                    if snap(sc.symbol_attrs.lookup(name, recursive=False)) != snap(T):
                        self.bad('scope-not-updated', op, 'creating a scoped symbol with an explicit type did not '
                                                          'record that type in the scope')
                    self.after_update(op, before, si, name, T)
            elif sc is not None and eff is not None:
                if snap(v.type) != snap(eff):
                    self.bad('type-after-create', op, f'symbol reports {snap(v.type)}, scope records {snap(eff)}')
            self.new_symbol(op, v, name, si if sc is not None else None)
            return type(v).__name__
        if kind == 'declare_dt':
            T = self.SA(self.DT(name='my_type', typedef=self.typedef)) if op['typedef'] else \
                self.SA(self.DT(name='my_type'))
            before = self.types_now()
            scope.symbol_attrs[name] = T
            self.after_update(op, before, si, name, T)
            return None
        if kind == 'mkmember':
            ptype = scope.symbol_attrs.lookup(name)
            if ptype is None or not isinstance(ptype.dtype, self.DT):
                return None
            full = f'{name}%{op["member"]}'
            rec = scope.symbol_attrs.lookup(full)
            if rec is not None and rec.dtype != self.BT.DEFERRED:
                eff = rec
            elif ptype.dtype.typedef is not self.BT.DEFERRED and op['member'].lower() in self.member_types:
                eff = self.member_types[op['member'].lower()]
            else:
                eff = rec
            dims = (sym.IntLiteral(1),) if op['dims'] else None
            parent = sym.Variable(name=name, scope=scope)
            kw = {'name': full, 'scope': scope, 'parent': parent}
            if dims is not None:
                kw['dimensions'] = dims
            v = sym.Variable(**kw)
            exp = self.expected_class(eff, dims)
            if type(v) is not exp:  # pylint: disable=unidiomatic-typecheck
                self.bad('classification', op, f'member {full} (parent type has typedef: '
                                               f'{ptype.dtype.typedef is not self.BT.DEFERRED}, recorded {snap(rec)}) '
                                               f'became {type(v).__name__}, expected {exp.__name__}')
            if eff is not None and eff.dtype != self.BT.DEFERRED and snap(v.type) != snap(eff):
                self.bad('member-type', op, f'member {full} reports {snap(v.type)}, expected {snap(eff)}')
            self.members.append(v)
            self.run.probe('derived_type_members')
            return type(v).__name__
        if kind == 'update_table':
            T = self.mk_type(op['type'])
            before = self.types_now()
            scope.symbol_attrs[name] = T
            self.after_update(op, before, si, name, T)
            return None
        if kind == 'update_scope':
            T = self.mk_type(op['type'])
            before = self.types_now()
            scope.declare(name, T.dtype, fail=False, **{k: x for k, x in T.__dict__.items() if k != 'dtype'})
            self.after_update(op, before, si, name, T)
            return None
        if not self.syms:
            return None
        k = op['i'] % len(self.syms)
        s = self.syms[k]
        v = s['obj']
        if kind == 'update_via_clone':
            if s['scope'] is None:
                return None
            T = self.mk_type(op['type'])
            if isinstance(v, sym.ProcedureSymbol) != isinstance(T.dtype, self.PT):
                pass
            before = self.types_now()
            nv = v.clone(type=T)
            exp = self.expected_class(T, getattr(v, 'dimensions', None) or None)
            if type(nv) is not exp:  # pylint: disable=unidiomatic-typecheck
                self.bad('classification', op, f'clone(type={snap(T)}) of {type(v).__name__} {s["name"]} became '
                                               f'{type(nv).__name__}, expected {exp.__name__}')
            self.after_update(op, before, s['scope'], s['name'], T)
            self.new_symbol(op, nv, s['name'], s['scope'])
            return type(nv).__name__
        if kind == 'setter':
            T = self.mk_type(op['type'])
            before = self.types_now()
            try:
                v.type = T
            except AttributeError:
                return 'no-setter'
            if s['scope'] is None:
                if snap(v.type) != snap(T):
                    self.bad('setter', op, 'unattached symbol does not report the type just set')
                before[k] = snap(T)
                now = self.types_now()
                for j, o in enumerate(self.syms):
                    if j != k and now[j] != before[j]:
                        self.bad('unrelated-changed', op, f'setting the type of an unattached symbol changed '
                                                          f'symbol {o["name"]}')
            else:
                self.after_update(op, before, s['scope'], s['name'], T)
            return 'set'
        if kind == 'detach':
            t0 = snap(v.type) if v.type is not None else None
            nv = v.clone(scope=None)
            if nv.scope is not None:
                self.bad('detach', op, 'clone(scope=None) is still attached to a scope')
            t1 = snap(nv.type) if nv.type is not None else None
            if t1 != t0:
                self.bad('detach', op, f'detached copy reports {t1}, original reported {t0}')
            self.run.probe('detached_symbols')
            self.new_symbol(op, nv, s['name'], None)
            return None
        if kind == 'clone':
            before = self.types_now()
            T = self.mk_type(op['type']) if op['has_type'] else None
            kw = {}
            target = s['scope']
            if op['newscope'] == 'other':
                kw['scope'] = scope
                target = si
            elif op['newscope'] == 'none':
                kw['scope'] = None
                target = None
            if T is not None:
                kw['type'] = T
            newname = s['name']
            if op.get('rename'):
                kw['name'] = op['rename']
                newname = op['rename']
            new_scope = kw['scope'] if 'scope' in kw else v.scope
            # documented rule of clone(): explicit type wins; else the entry of the new scope's own
            # table for the (new) name if there is one; else the symbol's current type
            if T is not None:
                eff = T
            elif new_scope is not None and newname in new_scope.symbol_attrs:
                eff = new_scope.symbol_attrs[newname]
            else:
                eff = v.type
            if eff is None and new_scope is not None:
                # factory rule: no type given but a scope -> the type recorded for that name (chain look-up)
                eff = new_scope.symbol_attrs.lookup(newname)
            nv = v.clone(**kw)
            dims = getattr(v, 'dimensions', None) or None
            exp = self.expected_class(eff, dims)
            if type(nv) is not exp:  # pylint: disable=unidiomatic-typecheck
                self.bad('classification', op, f'clone({sorted(kw)}) of {type(v).__name__} {s["name"]} with '
                                               f'effective type {snap(eff)} became {type(nv).__name__}, expected '
                                               f'{exp.__name__}')
            if target is not None and T is not None:
                self.after_update(op, before, target, newname, T)
            elif T is None:
                # no type was given: nobody's recorded type may change
                now = self.types_now()
                for j, o in enumerate(self.syms):
                    if now[j] != before[j]:
                        self.bad('clone-changed-others', op, f'cloning {s["name"]} without a type changed the type '
                                                             f'of symbol {o["name"]} (scope {o["scope"]}) from '
                                                             f'{before[j]} to {now[j]}')
            self.new_symbol(op, nv, newname, target)
            return type(nv).__name__
        if kind == 'rescope':
            own = scope.symbol_attrs.lookup(s['name'], recursive=False)
            found = scope.symbol_attrs.lookup(s['name'])
            t0 = v.type
            nv = v.rescope(scope)
            if nv.scope is not scope:
                self.bad('rescope', op, 'rescoped symbol is not attached to the new scope')
            # must not overwrite an existing entry of the provided scope
            if own is not None and snap(scope.symbol_attrs.lookup(s['name'], recursive=False)) != snap(own):
                if own.dtype != self.BT.DEFERRED:
                    self.bad('rescope-overwrote', op, f'rescope overwrote the existing entry {snap(own)} with '
                                                      f'{snap(scope.symbol_attrs.lookup(s["name"], recursive=False))}')
            if found is not None and found.dtype != self.BT.DEFERRED:
                if snap(nv.type) != snap(found):
                    self.bad('rescope', op, f'rescoped symbol reports {snap(nv.type)}, the new scope records '
                                            f'{snap(found)}')
            elif t0 is not None and (found is None):
                if snap(nv.type) != snap(t0):
                    self.bad('rescope', op, f'rescoped symbol lost its type: {snap(nv.type)} vs {snap(t0)}')
            self.new_symbol(op, nv, s['name'], si)
            return None
        raise HarnessError(f'unknown op {kind}')
