"""Engine interface shared by all simulation worlds."""
import copy


class Engine:
    name = 'base'
    props = ()
    # which components run real Loki code and which are stand-ins (for evidence)
    real = ()
    stubs = ()
    fault_kinds = ()          # names of stats counters that count *fired* faults
    probes = ()               # names of stats counters that are reach probes
    nontrivial_rule = ''
    hashseed_independent = False

    def setup(self):
        """One-time per-process initialisation (imports, logging off)."""

    def gen(self, g, prop, tier):
        """Draw a scenario (JSON-serialisable dict) from Choices ``g``."""
        raise NotImplementedError

    def execute(self, scenario, run):
        """Run the scenario under ``run.sched``; record events, violations."""
        raise NotImplementedError

    def shrink(self, scenario, prop):
        """Yield one-step smaller scenarios (workload and fault reductions)."""
        return iter(())

    def describe(self, scenario):
        """Short JSON-able summary for evidence samples."""
        return scenario

    @staticmethod
    def clone(scenario):
        return copy.deepcopy(scenario)
