"""
batchworld project model: generator, Fortran emitter and reference closure
(DESIGN Appendix A).  Everything here is independent of Loki's code.
"""

def spell(name, k):
    return (name.lower(), name.upper(), name.capitalize())[k % 3]


# ---------------------------------------------------------------------------
# generator
# ---------------------------------------------------------------------------

def gen_project(g, tier, style='general', bindings=False):
    """
    Units (modules, free subroutines) are drawn in a global order; a unit only
    depends on earlier units (valid Fortran: no circular module dependencies),
    and files hold contiguous chunks of that order (no circular file
    dependencies, which no build system could compile either).
    """
    big = tier == 'thorough'
    nmods = g.randint('nmods', 1, 5 if big else 4)
    nfree = g.randint('nfree', 0, 4 if big else 3)
    units = g.shuffled('uorder', [('mod', m) for m in range(nmods)] + [('free', f) for f in range(nfree)])
    mods = []
    procs = {}
    order = []
    externals = []
    unit_list = []
    for kind, k in units:
        earlier_mods = list(mods)
        earlier_procs = list(order)
        if kind == 'mod':
            mname = f'mod{k}_mod' if g.flip('modsuffix', 2, 3) else f'mod{k}'
            mod = {'name': mname, 'idx': k, 'procs': [], 'types': [], 'vars': [f'gv{k}'], 'params': [f'np{k}']}
            if g.flip('hastype', 1, 2):
                mod['types'].append(f't{k}')
            mod['iface'] = None
            if g.flip('hasiface', 1, 3):
                mod['iface'] = {'name': f'gen{k}', 'procs': [f'g{k}_r', f'g{k}_i']}
            pnames = [f'p{k}_{p}' for p in range(g.randint('nprocs', 1, 3))]
            if g.flip('infix', 1, 6):
                # a routine whose own name contains a typical transformation suffix
                pnames = [n.replace('_', g.pick('infixs', ['_test_', '_loki_']), 1) for n in pnames]
            if style == 'ifs':
                # one kernel per module, module named after it, no generic interfaces
                pnames = pnames[:1]
                mname = f'{pnames[0]}_mod'
                mod['name'] = mname
                mod['iface'] = None
            if style == 'groups':
                # several kernels per module, no generic interfaces, no calls inside the module
                mod['iface'] = None
            unit_list.append(['mod', mname])
        else:
            mname, mod = None, None
            pnames = [f'sub{k}']
            unit_list.append(['free', pnames[0]])
        for pname in pnames:
            P = {'mod': mname}
            cands = earlier_procs + ([x for x in mod['procs']] if mod and style != 'groups' else [])
            ncalls = g.randint('ncalls', 0, min(3, len(cands)))
            P['calls'] = []
            for q in g.sample('callees', cands, ncalls):
                Q = procs[q]
                if Q['mod'] is None or Q['mod'] == mname:
                    via = 'plain'
                else:
                    via = g.weighted('via', [('only', 5), ('rename', 2), ('unqual', 1)])
                P['calls'].append({'to': q, 'via': via, 'spell': g.choose('cspell', 3)})
            seen_unq = False
            for c in P['calls']:
                if c['via'] == 'unqual':
                    if seen_unq:
                        c['via'] = 'only'
                    seen_unq = True
            P['recursive'] = g.flip('recursive', 1, 10)
            P['uses_var'], P['uses_type'], P['uses_param'] = [], [], []
            if earlier_mods and g.flip('usevar', 1, 3):
                P['uses_var'].append(g.pick('uvmod', earlier_mods)['name'])
            if earlier_mods and g.flip('useparam', 1, 5):
                P['uses_param'].append(g.pick('upmod', earlier_mods)['name'])
            tmods = [m for m in earlier_mods if m['types']]
            if tmods and g.flip('usetype', 1, 3):
                tm = g.pick('utmod', tmods)
                P['uses_type'].append([tm['name'], tm['types'][0]])
            if mod and mod['types'] and g.flip('owntype', 1, 4):
                P['uses_type'].append([mname, mod['types'][0]])
            P['calls_iface'] = []
            imods = [m for m in earlier_mods if m.get('iface')] + ([mod] if mod and mod.get('iface') else [])
            if imods and g.flip('calliface', 1, 3):
                P['calls_iface'].append(g.pick('imod', imods)['name'])
            P['calls_bound'] = []
            bmods = [m for m in earlier_mods if m.get('bindings')]
            if bindings and bmods and g.flip('callbound', 1, 3):
                bm = g.pick('bmod', bmods)
                b = g.pick('bbind', bm['bindings'])
                if [bm['name'], b['type']] not in P['uses_type']:
                    P['uses_type'].append([bm['name'], b['type']])
                P['calls_bound'].append([bm['name'], b['type'], b['name']])
            P['ext_mod'] = None
            if g.flip('extmod', 1, 8):
                P['ext_mod'] = len(externals)
                externals.append(f'missing{P["ext_mod"]}_mod')
            P['external'] = None
            if g.flip('external', 1, 8):
                P['external'] = f'ext{len(externals)}'
                externals.append(P['external'])
            procs[pname] = P
            order.append(pname)
            if mod:
                mod['procs'].append(pname)
        if mod and len(mod['procs']) >= 2 and style == 'general' and g.flip('mutual', 1, 6):
            # a mutual-recursion cycle inside one module; both procedures are RECURSIVE, written with
            # different (legal) prefix spellings
            pa, pb = mod['procs'][0], mod['procs'][1]
            if not any(c['to'] == pb for c in procs[pa]['calls']):
                procs[pa]['calls'].append({'to': pb, 'via': 'plain', 'spell': 0})
            if not any(c['to'] == pa for c in procs[pb]['calls']):
                procs[pb]['calls'].append({'to': pa, 'via': 'plain', 'spell': 1})
            for q in (pa, pb):
                procs[q]['prefix'] = g.pick('prefix', ['recursive', 'pure recursive', 'recursive pure',
                                                        'RECURSIVE', 'impure recursive'])
            mod['mutual'] = [pa, pb]
        if mod and bindings and style == 'general' and mod['types'] and g.flip('hasbindings', 1, 2):
            # type-bound procedures: '<type>%<binding>' -> module procedure with a passed-object argument
            mod['bindings'] = []
            mod['bprocs'] = []
            for j in range(g.randint('nbind', 1, 2)):
                bp = f'b{k}_{j}'
                cands = earlier_procs + list(mod['procs'])
                calls = []
                for q in g.sample('bcallees', cands, g.randint('nbcalls', 0, min(2, len(cands)))):
                    Q = procs[q]
                    via = 'plain' if (Q['mod'] is None or Q['mod'] == mname) else 'only'
                    calls.append({'to': q, 'via': via, 'spell': g.choose('bcspell', 3)})
                procs[bp] = {'mod': mname, 'calls': calls, 'recursive': False, 'uses_var': [], 'uses_type': [],
                             'uses_param': [], 'external': None, 'ext_mod': None, 'calls_iface': [],
                             'calls_bound': [], 'bound': mod['types'][0], 'iproc': True}
                mod['bprocs'].append(bp)
                mod['bindings'].append({'type': mod['types'][0], 'name': bp if g.flip('samename', 1, 3) else f'do{k}_{j}',
                                        'to': bp})
        if mod:
            if mod['iface']:
                for ip in mod['iface']['procs']:
                    procs[ip] = {'mod': mname, 'calls': [], 'recursive': False, 'uses_var': [], 'uses_type': [],
                                 'uses_param': [], 'external': None, 'calls_iface': [], 'iproc': True,
                                 'ext_mod': None}
            mods.append(mod)
    if style == 'general' and mods and g.flip('shadowimport', 1, 6):
        # the same symbol name imported at two nesting levels from different modules
        cands = [m for m in mods if m['procs']]
        M = g.pick('shadowmod', cands)
        P = procs[g.pick('shadowproc', M['procs'])]
        for tag in ('sha', 'shb'):
            k = 90 + ('sha', 'shb').index(tag)
            mname = f'{tag}_mod'
            key = f'hlp@{mname}'
            procs[key] = {'mod': mname, 'ename': 'hlp', 'calls': [], 'recursive': False, 'uses_var': [],
                          'uses_type': [], 'uses_param': [], 'external': None, 'ext_mod': None, 'calls_iface': [],
                          'iproc': True}
            mods.append({'name': mname, 'idx': k, 'procs': [key], 'types': [], 'vars': [f'gv{k}'],
                         'params': [f'np{k}'], 'iface': None})
            unit_list.insert(0, ['mod', mname])
        M['muses'] = [['sha_mod', 'hlp']]
        P['calls'].append({'to': 'hlp@shb_mod', 'via': 'only', 'spell': 0})
    files = []
    dirs = ['', 'a/', 'b/c/']
    rest = list(unit_list)
    while rest:
        k = g.weighted('perfile', [(1, 5), (2, 2), (3, 1)]) if style == 'general' else 1
        chunk, rest = rest[:k], rest[k:]
        stem = chunk[0][1]
        files.append({'path': g.pick('dir', dirs) + spell(stem, g.choose('fspell', 3)) +
                      g.pick('ext', ['.F90', '.f90', '.F90']), 'units': [list(u) for u in chunk]})
    return {'mods': mods, 'procs': procs, 'order': order, 'files': files, 'externals': externals}


def gen_config(g, proj, tier, patterns=False):
    names = list(proj['order'])
    roots = [p for p in names if not any(p == c['to'] for q in names for c in proj['procs'][q]['calls'])]
    nseeds = g.randint('nseeds', 1, min(2, len(names)))
    pool = roots if roots and g.flip('seedroots', 3, 4) else names
    seeds = g.sample('seeds', pool, min(nseeds, len(pool)))
    default = {'role': 'kernel', 'expand': True, 'strict': g.flip('strict'), 'mode': g.pick('mode', ['idem', 'scc'])}
    if g.flip('enable_imports', 1, 3):
        default['enable_imports'] = True
    cand = [n for n in names if n not in seeds]
    if cand and g.flip('gdisable', 1, 4):
        default['disable'] = [qualify(proj, g.pick('gdis', cand), g.flip('gdisq', 1, 3))]
    routines = {}
    for s in seeds:
        rc = {'role': 'driver'}
        callees = [x['to'] for x in proj['procs'][s]['calls']]
        if callees and g.flip('seedlist', 1, 4):
            kind = g.pick('seedlistkind', ['disable', 'block', 'ignore'])
            unq = [x['to'] for x in proj['procs'][s]['calls'] if x['via'] == 'unqual']
            tgt = g.pick('stgtunq', unq) if unq and g.flip('spreferunq', 1, 2) else g.pick('stgt', callees)
            rc[kind] = [entry_spelling(g, proj, tgt, kind, patterns)]
        routines[qualify(proj, s, g.flip('seedq', 1, 4))] = rc
    for n in g.sample('cfgitems', cand, min(len(cand), g.randint('ncfg', 0, 3))):
        c = {}
        kind = g.weighted('cfgkind', [('role', 2), ('noexpand', 2), ('ignore', 3), ('block', 3), ('disable', 2),
                                      ('mode', 1)])
        callees = [x['to'] for x in proj['procs'][n]['calls']]
        if kind == 'role':
            c['role'] = g.pick('role', ['kernel', 'driver'])
        elif kind == 'noexpand':
            c['expand'] = False
        elif kind == 'mode':
            c['mode'] = 'other'
        elif callees:
            unq = [x['to'] for x in proj['procs'][n]['calls'] if x['via'] == 'unqual']
            tgt = g.pick('tgtunq', unq) if unq and g.flip('preferunq', 1, 2) else g.pick('tgt', callees)
            c[kind] = [entry_spelling(g, proj, tgt, kind, patterns)]
        if kind in ('ignore', 'block', 'disable') and proj['procs'][n].get('calls_bound') and g.flip('tgtbound', 1, 2):
            # name a type-bound procedure the routine calls, in one of the documented spellings
            m, t, b = g.pick('tgtb', proj['procs'][n]['calls_bound'])
            forms = [f'{t}%{b}', f'{m}#{t}%{b}', t]
            if patterns and kind != 'ignore':
                forms += [f'*%{b}', f'{t}%*']
            c[kind] = [g.pick('bform', forms)]
        if c:
            routines[qualify(proj, n, g.flip('nq', 1, 4))] = c
    # routines that call a type-bound procedure: name the binding (or its type) in one of their lists
    for n in names:
        cb = proj['procs'][n].get('calls_bound')
        if not cb or not g.flip('cfgbound', 1, 3):
            continue
        key = next((k for k in routines if k.split('#')[-1] == n), None)
        if key is None:
            key = qualify(proj, n, g.flip('bnq', 1, 4))
            routines[key] = {}
        kind = g.pick('bkind', ['disable', 'block', 'ignore'])
        if kind in routines[key]:
            continue
        m, t, b = g.pick('btgt', cb)
        forms = [f'{t}%{b}', f'{m}#{t}%{b}', t, t]
        if patterns and kind != 'ignore':
            forms += [f'*%{b}', f'{t}%*']
        routines[key][kind] = [g.pick('bform2', forms)]
    return {'seeds': [qualify(proj, s, False) if g.flip('sq', 3, 4) else qualify(proj, s, True) for s in seeds],
            'default': default, 'routines': routines}


def ename(proj, p):
    """emitted (Fortran) name of the procedure with model key p"""
    return proj['procs'][p].get('ename', p)


def qualify(proj, p, q):
    m = proj['procs'][p]['mod']
    if q and m:
        return f'{m}#{p}'
    return p


# ---------------------------------------------------------------------------
# emitter
# ---------------------------------------------------------------------------

def emit_proc(proj, p, ind):
    P = proj['procs'][p]
    L = []
    rec = (P.get('prefix') or 'recursive') + ' ' if (P['recursive'] or P.get('prefix')) else ''
    L.append(f'{ind}{rec}subroutine {ename(proj, p)}({"this, " if P.get("bound") else ""}x)')
    uses = {}
    unq = []
    for c in P['calls']:
        Q = proj['procs'][c['to']]
        if c['via'] == 'only':
            uses.setdefault(Q['mod'], []).append(ename(proj, c['to']))
        elif c['via'] == 'rename':
            uses.setdefault(Q['mod'], []).append(f'loc_{ename(proj, c["to"])} => {ename(proj, c["to"])}')
        elif c['via'] == 'unqual':
            unq.append(Q['mod'])
    for m in P['uses_var']:
        uses.setdefault(m, []).append(f'gv{m_index(proj, m)}')
    for m in P['uses_param']:
        uses.setdefault(m, []).append(f'np{m_index(proj, m)}')
    for m, t in P['uses_type']:
        if m != P['mod']:
            uses.setdefault(m, []).append(t)
    for m in P.get('calls_iface', []):
        if m != P['mod']:
            uses.setdefault(m, []).append(f'gen{m_index(proj, m)}')
    if P.get('ext_mod') is not None:
        uses[f'missing{P["ext_mod"]}_mod'] = [f'mp{P["ext_mod"]}']
    for m in unq:
        if m not in uses:
            L.append(f'{ind}  use {m}')
        else:
            # an unqualified import plus explicit ones: keep it simple and import everything explicitly
            pass
    for m, syms in uses.items():
        if m in unq:
            extra = [ename(proj, c['to']) for c in P['calls']
                     if c['via'] == 'unqual' and proj['procs'][c['to']]['mod'] == m]
            syms = syms + extra
        L.append(f'{ind}  use {spell(m, len(syms))}, only: {", ".join(dict.fromkeys(syms))}')
    L.append(f'{ind}  implicit none')
    if P.get('cinclude'):
        L.append(f'#include "ext_{p}.intfb.h"')
    if P.get('bound'):
        L.append(f'{ind}  class({P["bound"]}), intent(inout) :: this')
    L.append(f'{ind}  real, intent(inout) :: x')
    for i, (m, t) in enumerate(P['uses_type']):
        L.append(f'{ind}  type({t}) :: tv{i}')
    for m in P['uses_var']:
        L.append(f'{ind}  x = x + gv{m_index(proj, m)}')
    for m in P['uses_param']:
        L.append(f'{ind}  x = x + real(np{m_index(proj, m)})')
    for i, _ in enumerate(P['uses_type']):
        L.append(f'{ind}  tv{i}%val = x')
    for c in P['calls']:
        nm = f'loc_{ename(proj, c["to"])}' if c['via'] == 'rename' else ename(proj, c['to'])
        L.append(f'{ind}  call {spell(nm, c["spell"])}(x)')
    for m in P.get('calls_iface', []):
        L.append(f'{ind}  call gen{m_index(proj, m)}(x)')
    for m, t, b in P.get('calls_bound', []):
        L.append(f'{ind}  call tv{P["uses_type"].index([m, t])}%{b}(x)')
    if P.get('ext_mod') is not None:
        L.append(f'{ind}  call mp{P["ext_mod"]}(x)')
    if P['external']:
        L.append(f'{ind}  call {P["external"]}(x)')
    if P['recursive']:
        L.append(f'{ind}  if (x > 100.) call {ename(proj, p)}(x)')
    L.append(f'{ind}end subroutine {ename(proj, p)}')
    return L


def m_index(proj, mname):
    return next(m['idx'] for m in proj['mods'] if m['name'] == mname)


def emit_unit(proj, kind, name):
    if kind == 'free':
        return emit_proc(proj, name, '')
    m = next(x for x in proj['mods'] if x['name'] == name)
    i = m_index(proj, name)
    L = [f'module {name}']
    for um, usym in m.get('muses', []):
        L.append(f'  use {um}, only: {usym}')
    L += ['  implicit none', f'  integer, parameter :: np{i} = {i + 1}', f'  real :: gv{i} = {i}.0']
    for t in m['types']:
        L += [f'  type {t}', '    real :: val']
        bl = [b for b in m.get('bindings', []) if b['type'] == t]
        if bl:
            L.append('  contains')
            for b in bl:
                L.append(f'    procedure :: {b["name"]}' + (f' => {b["to"]}' if b['name'] != b['to'] else ''))
        L.append(f'  end type {t}')
    if m.get('iface'):
        L += [f'  interface {m["iface"]["name"]}', f'    module procedure {", ".join(m["iface"]["procs"])}',
              f'  end interface {m["iface"]["name"]}']
    L.append('contains')
    for p in m['procs']:
        L += emit_proc(proj, p, '  ')
    for p in m.get('bprocs', []):
        L += emit_proc(proj, p, '  ')
    if m.get('iface'):
        r, ii = m['iface']['procs']
        L += [f'  subroutine {r}(x)', '    real, intent(inout) :: x', '    x = x + 1.0', f'  end subroutine {r}',
              f'  subroutine {ii}(i)', '    integer, intent(inout) :: i', '    i = i + 1', f'  end subroutine {ii}']
    L.append(f'end module {name}')
    return L


def emit_files(proj):
    out = {}
    for f in proj['files']:
        L = []
        for kind, name in f['units']:
            L += emit_unit(proj, kind, name) + ['']
        out[f['path']] = '\n'.join(L)
    return out


# ---------------------------------------------------------------------------
# reference closure
# ---------------------------------------------------------------------------

def item_name(proj, p):
    m = proj['procs'][p]['mod']
    return f'{m}#{ename(proj, p)}' if m else f'#{ename(proj, p)}'


def matches(name, keys):
    """documented forms (quick tier): local name, fully qualified name"""
    name = name.lower()
    local = name.split('#', 1)[1] if '#' in name else name
    return any(k.lower() in (name, local) for k in keys or ())


def matches_with_parents(name, keys, patterns=True):
    """
    disable/block lists: fully qualified name, local name or scope name, each against fnmatch-style patterns;
    ignore lists (patterns=False): the same forms, literally
    """
    import fnmatch  # pylint: disable=import-outside-toplevel
    name = name.lower()
    scope = name.split('#', 1)[0] if '#' in name else ''
    local = name.split('#', 1)[1] if '#' in name else name
    forms = {name, local} | ({scope} if scope else set())
    if '%' in local:
        # a type-bound procedure also matches through its type: '<type>', '<scope>#<type>'
        tname = local.split('%', 1)[0]
        forms |= {tname, f'{scope}#{tname}'}
    keys = [k.lower() for k in keys or ()]
    if any(k in forms for k in keys):
        return True
    if not patterns:
        return False
    return any(fnmatch.fnmatchcase(f, k) for k in keys for f in forms)


def entry_spelling(g, proj, tgt, kind, patterns=False):
    """one of the documented spellings of a disable/block/ignore entry that names procedure tgt"""
    m = proj['procs'][tgt]['mod']
    nm = ename(proj, tgt)
    forms = ['plain', 'plain', 'qualified']
    if kind != 'ignore' and patterns:
        forms += ['prefix*', 'scoped-prefix*', 'qmark', 'upper*']
    f = g.pick('entryform', forms)
    if f == 'qualified' and m:
        return f'{m}#{nm}'
    if f == 'prefix*':
        return nm[:max(2, len(nm) - 1)] + '*'
    if f == 'scoped-prefix*' and m:
        return f'{m}#{nm[:max(2, len(nm) - 2)]}*'
    if f == 'qmark':
        return nm[:-1] + '?'
    if f == 'upper*':
        return nm[:max(2, len(nm) - 1)].upper() + '*'
    return nm


def item_config(cfg, name):
    c = dict(cfg['default'])
    for k, v in cfg['routines'].items():
        if matches(name, [k]):
            c.update(v)
    return c


def effective_unqual(proj, p):
    """modules imported without an only-list (and not also imported explicitly) by procedure p"""
    P = proj['procs'][p]
    explicit = set()
    for c in P['calls']:
        if c['via'] in ('only', 'rename'):
            explicit.add(proj['procs'][c['to']]['mod'])
    explicit |= set(P['uses_var']) | set(P['uses_param']) | {m for m, _ in P['uses_type'] if m != P['mod']}
    explicit |= {m for m in P.get('calls_iface', []) if m != P['mod']}
    out = []
    for c in P['calls']:
        m = proj['procs'][c['to']]['mod']
        if c['via'] == 'unqual' and m not in explicit and m not in out:
            out.append(m)
    return out


def raw_children(proj, p):
    """[(item name, kind)] in a deterministic order; kind in proc/module/type/external"""
    P = proj['procs'][p]
    out = []
    for m in P['uses_var']:
        out.append((m, 'module'))
    for m in P['uses_param']:
        out.append((m, 'module'))
    for m in effective_unqual(proj, p):
        out.append((m, 'module'))
    for m, t in P['uses_type']:
        out.append((f'{m}#{t}', 'type'))
    for c in P['calls']:
        out.append((item_name(proj, c['to']), 'proc'))
    for m in P.get('calls_iface', []):
        out.append((f'{m}#gen{m_index(proj, m)}', 'interface'))
    if P.get('bound'):
        out.append((f'{P["mod"]}#{P["bound"]}', 'type'))      # class(<type>) :: this
    for m, t, b in P.get('calls_bound', []):
        out.append((f'{m}#{t}%{b}', 'binding'))
    if P.get('ext_mod') is not None:
        out.append((f'missing{P["ext_mod"]}_mod', 'external_mod'))
        out.append((f'missing{P["ext_mod"]}_mod#mp{P["ext_mod"]}', 'external_mod'))
    if P['external']:
        out.append((f'#{P["external"]}', 'external'))
    return list(dict.fromkeys(out))


def reference_graph(proj, cfg):
    """
    Returns dict(nodes={name: kind}, edges=set((a, b)), ignored={name: bool or None (indeterminate)})
    """
    by_item = {item_name(proj, p): p for p in proj['procs']}
    nodes = {}
    edges = {}
    queue = []
    gdis = cfg['default'].get('disable', [])
    seeds = []
    for s in cfg['seeds']:
        cands = [n for n in by_item if matches(n, [s])]
        if len(cands) == 1 and cands[0] not in nodes:
            nodes[cands[0]] = 'proc'
            seeds.append(cands[0])
            queue.append(cands[0])
    while queue:
        n = queue.pop(0)
        if nodes[n] not in ('proc', 'interface', 'binding'):
            continue
        c = item_config(cfg, n)
        if not c.get('expand', True):
            continue
        if nodes[n] == 'interface':
            mname = n.split('#')[0]
            mod = next(m for m in proj['mods'] if m['name'] == mname)
            children = [(f'{mname}#{ip}', 'proc') for ip in mod['iface']['procs']]
        elif nodes[n] == 'binding':
            mname, rest = n.split('#')
            tname, bname = rest.split('%')
            mod = next(m for m in proj['mods'] if m['name'] == mname)
            b = next(b for b in mod['bindings'] if b['type'] == tname and b['name'] == bname)
            children = [(f'{mname}#{b["to"]}', 'proc')]
        else:
            children = raw_children(proj, by_item[n])
        for child, kind in children:
            if matches_with_parents(child, gdis) or matches_with_parents(child, c.get('disable')):
                continue
            if matches_with_parents(child, c.get('block')):
                continue
            if child == n:
                continue
            edges[(n, child)] = bool(matches_with_parents(child, c.get('ignore'), patterns=False))
            if child not in nodes:
                nodes[child] = kind
                queue.append(child)
    votes = {n: set() for n in nodes}
    for s in seeds:
        votes[s].add(False)
    changed = True
    while changed:
        changed = False
        for (a, b), ig in edges.items():
            new = {True} if ig else votes[a]
            if not new <= votes[b]:
                votes[b] |= new
                changed = True
    ignored = {n: (next(iter(v)) if len(v) == 1 else None) for n, v in votes.items()}
    cyc = []
    for m in proj['mods']:
        if m.get('mutual'):
            a, b = (item_name(proj, x) for x in m['mutual'])
            if (a, b) in edges and (b, a) in edges:
                cyc.append((a, b))
    return {'nodes': nodes, 'edges': set(edges), 'ignored': ignored, 'cycles': cyc,
            'has_external': any(k == 'external' for k in nodes.values())}
