"""
attachworld -- C16: attaching and detaching dataflow information, pragmas and
pragma regions leaves the IR unchanged, also when the body raises.

The simulator owns the nesting order of the attach/detach contexts and the
step of the body at which a fault (an exception) is injected; the exception
unwinds through every enclosing context.  Everything under test is real code.
"""
from sim.engines.base import Engine
from sim.kernel import HarnessError, SimFault

KEYWORDS = ('loki', 'acc', 'omp')


# ---------------------------------------------------------------------------
# program generator (Fortran text with pragmas in all sorts of places)
# ---------------------------------------------------------------------------

def gen_body(g, depth, budget):
    """Returns a list of statement dicts."""
    out = []
    n = g.randint('nstmt', 1, 4 if depth else 5)
    for _ in range(n):
        if budget[0] <= 0:
            break
        budget[0] -= 1
        kind = g.weighted('stmt', [('assign', 5), ('loop', 4 if depth < 3 else 0), ('cond', 2 if depth < 3 else 0),
                                   ('select', 1 if depth < 2 else 0), ('call', 3), ('pragma', 4),
                                   ('region', 3 if depth < 3 else 0), ('where', 1), ('while', 1 if depth < 2 else 0),
                                   ('end_pragma', 1), ('inline_if', 1)])
        st = {'k': kind}
        if kind in ('loop', 'while'):
            st['pre'] = gen_pragma(g) if g.flip('pre', 1, 2) else None
            st['post'] = gen_pragma(g, end=True) if g.flip('post', 1, 4) else None
            st['body'] = gen_body(g, depth + 1, budget)
        elif kind == 'cond':
            st['body'] = gen_body(g, depth + 1, budget)
            st['else'] = gen_body(g, depth + 1, budget) if g.flip('else', 1, 3) else None
        elif kind == 'select':
            st['cases'] = [gen_body(g, depth + 1, budget) for _ in range(g.randint('ncase', 1, 3))]
        elif kind == 'call':
            st['pre'] = gen_pragma(g) if g.flip('cpre', 1, 3) else None
            st['post'] = gen_pragma(g, end=True) if g.flip('cpost', 1, 6) else None
        elif kind == 'pragma':
            st['p'] = gen_pragma(g)
        elif kind == 'end_pragma':
            st['p'] = gen_pragma(g, end=True)       # unmatched end
        elif kind == 'region':
            kw = g.pick('rkw', KEYWORDS)
            marker = g.pick('marker', ['data', 'region', 'kernels'])
            st['kw'], st['marker'] = kw, marker
            st['args'] = g.pick('rargs', ['', ' copy(a)', ' in(b) out(c)'])
            st['body'] = gen_body(g, depth + 1, budget)
            st['shape'] = g.weighted('rshape', [('matched', 6), ('no_end', 1), ('crossed', 1)])
        out.append(st)
    return out


def gen_pragma(g, end=False):
    kw = g.pick('kw', KEYWORDS)
    if end:
        return {'kw': kw, 'text': 'end ' + g.pick('etext', ['parallel loop', 'data', 'foo', 'region'])}
    text = g.pick('ptext', ['parallel loop', 'foo', 'loop gang vector', 'data copy(a)', 'routine seq',
                            'dimension(n)', 'some-thing else(1:n, 2)', 'parallel do private(i)'])
    return {'kw': kw, 'text': text, 'multi': g.flip('multi', 1, 8)}


def prag_lines(p, ind):
    if p is None:
        return []
    if p.get('multi'):
        return [f'{ind}!${p["kw"]} {p["text"]} &', f'{ind}!${p["kw"]}& extra(a)']
    return [f'{ind}!${p["kw"]} {p["text"]}']


def render_body(stmts, depth, lines, ctr):
    ind = '  ' * (depth + 2)
    idx = 'ijkl'[min(depth, 3)]
    for st in stmts:
        k = st['k']
        ctr[0] += 1
        c = ctr[0]
        if k == 'assign':
            lines.append(f'{ind}b({c % 3 + 1}) = c({c % 2 + 1}) + {c}.0_jprb')
        elif k == 'inline_if':
            lines.append(f'{ind}if( m>{c} )b(1)=3.0_jprb')
        elif k == 'loop':
            lines += prag_lines(st['pre'], ind)
            lines.append(f'{ind}do {idx}=1,n')
            render_body(st['body'], depth + 1, lines, ctr)
            lines.append(f'{ind}end do')
            lines += prag_lines(st['post'], ind)
        elif k == 'while':
            lines += prag_lines(st['pre'], ind)
            lines.append(f'{ind}do while (m < {c})')
            render_body(st['body'], depth + 1, lines, ctr)
            lines.append(f'{ind}end do')
            lines += prag_lines(st['post'], ind)
        elif k == 'cond':
            lines.append(f'{ind}if (m > {c}) then')
            render_body(st['body'], depth + 1, lines, ctr)
            if st['else'] is not None:
                lines.append(f'{ind}else')
                render_body(st['else'], depth + 1, lines, ctr)
            lines.append(f'{ind}end if')
        elif k == 'select':
            lines.append(f'{ind}select case (m)')
            for ci, body in enumerate(st['cases']):
                lines.append(f'{ind}case ({ci + 1})' if ci < len(st['cases']) - 1 or ci == 0 else f'{ind}case default')
                render_body(body, depth + 1, lines, ctr)
            lines.append(f'{ind}end select')
        elif k == 'where':
            lines.append(f'{ind}where (b > 0.0_jprb)')
            lines.append(f'{ind}  c = b')
            lines.append(f'{ind}end where')
        elif k == 'call':
            lines += prag_lines(st['pre'], ind)
            lines.append(f'{ind}call ext_{c % 3}(n, b, c)')
            lines += prag_lines(st['post'], ind)
        elif k in ('pragma', 'end_pragma'):
            lines += prag_lines(st['p'], ind)
        elif k == 'region':
            start = f'{ind}!${st["kw"]} {st["marker"]}{st["args"]}'
            end = f'!${st["kw"]} end {st["marker"]}'
            lines.append(start)
            if st['shape'] == 'crossed' and st['body'] and st['body'][0]['k'] in ('loop', 'cond'):
                # the end pragma lands inside the first nested construct
                inner = st['body'][0]
                inner = dict(inner, body=inner['body'] + [{'k': 'rawline', 'line': end}])
                render_body([inner] + st['body'][1:], depth, lines, ctr)
            else:
                render_body(st['body'], depth, lines, ctr)
                if st['shape'] != 'no_end':
                    lines.append(f'{ind}{end}')
        elif k == 'rawline':
            lines.append(f'{ind}{st["line"]}')
        else:
            raise HarnessError(k)


def render_unit(scen):
    lines = ['module att_mod', '  implicit none', '  integer, parameter :: jprb = 8']
    if scen['spec_pragmas'] & 1:
        lines.append('  !$loki dimension(10)')
    lines.append('  real(kind=jprb), allocatable :: gfield(:)')
    if scen['spec_pragmas'] & 2:
        lines.append('  !$acc declare create(gfield)')
    lines += ['contains', '  subroutine att(n, m, a, b, c)', '    integer, intent(in) :: n, m']
    if scen['spec_pragmas'] & 4:
        lines.append('    !$loki dimension(n,m)')
    lines.append('    real(kind=jprb), intent(inout) :: a(:,:)')
    if scen['spec_pragmas'] & 8:
        lines.append('    !$loki dimension(n)')
        lines.append('    !$acc routine seq')
    lines += ['    real(kind=jprb), intent(inout) :: b(n), c(n)', '    integer :: i, j, k, l']
    if scen['spec_pragmas'] & 16:
        lines.append('    !$omp threadprivate(k)')
    body = []
    render_body(scen['body'], 0, body, [0])
    lines += body
    lines += ['  end subroutine att', 'end module att_mod']
    return '\n'.join(lines) + '\n'


# ---------------------------------------------------------------------------
# history generator: a well-nested program over the attach contexts
# ---------------------------------------------------------------------------

NODE_TYPE_SETS = (('Loop',), ('Loop', 'WhileLoop'), ('CallStatement',), ('VariableDeclaration',),
                  ('Loop', 'CallStatement', 'VariableDeclaration', 'ProcedureDeclaration', 'WhileLoop'))


def gen_prog(g, depth, budget):
    steps = []
    n = g.randint('nsteps', 1, 4)
    for _ in range(n):
        if budget[0] <= 0:
            break
        budget[0] -= 1
        kind = g.weighted('step', [('query', 5), ('ctx', 5 if depth < 4 else 0)])
        if kind == 'query':
            steps.append({'q': g.pick('q', ['find_loops', 'find_pragmas', 'find_regions', 'read_dfa', 'fgen',
                                            'read_pragmas', 'find_calls'])})
        else:
            c = {'ctx': g.weighted('ctx', [('pragmas', 4), ('regions', 3), ('dfa', 2), ('x_pragmas', 1),
                                           ('x_regions', 1), ('x_dfa', 1)]),
                 'types': g.choose('types', len(NODE_TYPE_SETS)), 'post': g.flip('post', 3, 4),
                 'keyword': g.pick('keyword', [None, None, 'loki', 'acc', 'ACC']),
                 'target': g.pick('target', ['routine', 'routine', 'module']),
                 'body': gen_prog(g, depth + 1, budget)}
            steps.append(c)
    return steps


def count_steps(prog):
    n = 0
    for s in prog:
        n += 1
        if 'ctx' in s:
            n += count_steps(s['body'])
    return n


class AttachEngine(Engine):
    name = 'attachworld'
    props = ('C16',)
    real = ('loki.ir.pragma_utils: attach_pragmas/detach_pragmas/pragmas_attached, attach_pragma_regions/'
            'detach_pragma_regions/pragma_regions_attached', 'loki.analyse: attach/detach_dataflow_analysis, '
            'dataflow_analysis_attached, dfa_attached', 'FP frontend, fgen, conservative backend, FindNodes')
    stubs = ('nothing is stubbed; the simulator owns the nesting of contexts and the fault point',)
    fault_kinds = ('fault_body_raises', 'fault_unwound_through_n_contexts')
    probes = ('contexts_entered', 'max_nesting', 'regions_formed', 'pragmas_attached_nodes', 'source_status_flips',
              'attach_raised_inconclusive', 'unparsable_program')
    nontrivial_rule = ('a history is non-trivial if >= 2 contexts were entered or a fault unwound through >= 1 '
                       'context, on a unit containing >= 1 pragma; distinct = digest of (program text, history)')
    hashseed_independent = True

    def setup(self):
        import loki  # pylint: disable=import-outside-toplevel,unused-import
        import logging  # pylint: disable=import-outside-toplevel
        from loki.logging import default_logger  # pylint: disable=import-outside-toplevel
        default_logger.setLevel(logging.CRITICAL + 1)

    def gen(self, g, prop, tier):
        scen = {'spec_pragmas': g.choose('specp', 32), 'body': gen_body(g, 0, [14 if tier == 'quick' else 22]),
                'prog': gen_prog(g, 0, [10 if tier == 'quick' else 16])}
        n = count_steps(scen['prog'])
        scen['fault_at'] = g.choose('fault_at', n) if (n and g.flip('fault', 1, 2)) else None
        return scen

    def describe(self, scenario):
        return {'source': render_unit(scenario).splitlines(), 'prog': scenario['prog'],
                'fault_at': scenario['fault_at']}

    def shrink(self, scenario, prop):
        s = scenario

        def drop(lst, path):
            for i in range(len(lst)):
                yield path + [i]
                for key in ('body', 'else'):
                    if isinstance(lst[i].get(key), list):
                        yield from drop(lst[i][key], path + [i, key])
                if isinstance(lst[i].get('cases'), list):
                    for ci, cs in enumerate(lst[i]['cases']):
                        yield from drop(cs, path + [i, 'cases', ci])

        for root in ('prog', 'body'):
            for path in list(drop(s[root], [])):
                c = self.clone(s)
                lst = c[root]
                for pth in path[:-1]:
                    lst = lst[pth]
                del lst[path[-1]]
                if root == 'prog' and c['fault_at'] is not None:
                    n = count_steps(c['prog'])
                    if n == 0:
                        continue
                    c['fault_at'] = min(c['fault_at'], n - 1)
                yield c
        if s['fault_at'] is not None:
            c = self.clone(s)
            c['fault_at'] = None
            yield c
            for f in range(s['fault_at']):
                c = self.clone(s)
                c['fault_at'] = f
                yield c
        if s['spec_pragmas']:
            for bit in (1, 2, 4, 8, 16):
                if s['spec_pragmas'] & bit:
                    c = self.clone(s)
                    c['spec_pragmas'] &= ~bit
                    yield c

    # -- execution ---------------------------------------------------------------
    def execute(self, scenario, run):
        from loki import Sourcefile, fgen  # pylint: disable=import-outside-toplevel
        from loki.frontend import FP  # pylint: disable=import-outside-toplevel
        text = render_unit(scenario)
        try:
            sf = Sourcefile.from_source(text, frontend=FP)
            module = sf['att_mod']
            routine = module['att']
        except Exception as e:  # pylint: disable=broad-except
            run.probe('unparsable_program')
            run.event('unparsable', type(e).__name__)
            return
        run.event('source', text)
        W = World(run, scenario, module, routine, fgen)
        before = W.observe()
        W.play()
        after = W.observe()
        W.judge(before, after)


class World:
    def __init__(self, run, scenario, module, routine, fgen):
        import loki.ir as ir  # pylint: disable=import-outside-toplevel
        from loki.ir import nodes as N  # pylint: disable=import-outside-toplevel
        from loki.ir import pragma_utils as PU  # pylint: disable=import-outside-toplevel
        from loki import analyse as AN  # pylint: disable=import-outside-toplevel
        self.ir, self.N, self.PU, self.AN = ir, N, PU, AN
        self.run, self.scenario, self.module, self.routine, self.fgen = run, scenario, module, routine, fgen
        self.step = 0
        self.depth = 0
        self.maxdepth = 0
        self.entered = 0
        self.dfa_depth = 0
        self.dfa_routine = 0
        self.inconclusive = False
        self.detach_error = None
        self.fault_depth = None

    # -- observation ---------------------------------------------------------------
    def all_nodes(self, unit):
        out = []
        for sec in ('spec', 'body'):
            sect = getattr(unit, sec, None)
            if sect is not None:
                out += self.ir.FindNodes(self.N.Node, greedy=False).visit(sect)
                out.append(sect)
        return out

    def dump(self, o):
        N = self.N
        if isinstance(o, N.Node):
            fields = set(getattr(o, '__dataclass_fields__', {}).keys())
            items = []
            for k in sorted(o.__dict__):
                if k in ('source', 'symbol_attrs') or k.startswith('_'):
                    continue
                v = o.__dict__[k]
                if v is None and k not in fields:
                    continue
                items.append((k, self.dump(v)))
            return (type(o).__name__, tuple(items))
        if isinstance(o, (tuple, list)):
            return tuple(self.dump(x) for x in o)
        if isinstance(o, dict):
            return tuple(sorted((str(k), self.dump(v)) for k, v in o.items()))
        if isinstance(o, (str, int, float, bool)) or o is None:
            return o
        return f'{type(o).__name__}:{o!s}'

    def observe(self):
        obs = {}
        for name, unit in (('module', self.module), ('routine', self.routine)):
            nodes = self.all_nodes(unit)
            obs[name] = {
                'fgen': self.fgen(unit),
                'cons': '\n'.join(self.fgen(getattr(unit, sec), conservative=True)
                                  for sec in ('spec', 'body') if getattr(unit, sec, None) is not None),
                'dump': (self.dump(getattr(unit, 'spec', None)), self.dump(getattr(unit, 'body', None))),
                'ids': {id(n): type(n).__name__ for n in nodes},
                'keep': nodes,      # strong refs: ids stay unique
                'regions': sum(1 for n in nodes if isinstance(n, self.N.PragmaRegion)),
                'attached': sum(1 for n in nodes if getattr(n, 'pragma', None) and not
                                isinstance(n, self.N.PragmaRegion)) +
                sum(1 for n in nodes if getattr(n, 'pragma_post', None) and not isinstance(n, self.N.PragmaRegion)),
                'dfa': sum(1 for n in nodes if n.__dict__.get('_live_symbols') is not None or
                           n.__dict__.get('_defines_symbols') is not None or
                           n.__dict__.get('_uses_symbols') is not None),
                'status': sum(1 for n in nodes if getattr(getattr(n, 'source', None), 'status', None) is not None
                              and 'INVALID' in str(n.source.status)),
            }
        return obs

    # -- history -------------------------------------------------------------------------
    def play(self):
        try:
            self.block(self.scenario['prog'])
        except SimFault:
            self.run.probe('fault_body_raises')
            if self.fault_depth:
                self.run.probe('fault_unwound_through_n_contexts', self.fault_depth)
        self.run.stats['max_nesting'] = max(self.run.stats['max_nesting'], self.maxdepth)
        self.run.probe('contexts_entered', self.entered)
        self.run.steps += self.step

    def unit(self, c):
        return self.module if c['target'] == 'module' else self.routine

    def types(self, c):
        return tuple(getattr(self.N, t) for t in NODE_TYPE_SETS[c['types']])

    def block(self, steps):
        for s in steps:
            my = self.step
            self.step += 1
            if self.scenario['fault_at'] == my and 'q' in s:
                self.fault_depth = self.depth
                self.run.event('fault', my, self.depth)
                raise SimFault(f'injected at step {my}')
            if 'q' in s:
                self.query(s['q'])
                continue
            self.enter(s, fault_first=(self.scenario['fault_at'] == my))

    def query(self, q):
        ir, N = self.ir, self.N
        r = None
        for unit in (self.routine, self.module):
            sect = getattr(unit, 'body', None) or getattr(unit, 'spec', None)
            if q == 'find_loops':
                r = len(ir.FindNodes(N.Loop).visit(sect))
            elif q == 'find_pragmas':
                r = len(ir.FindNodes(N.Pragma).visit(sect))
            elif q == 'find_regions':
                regs = ir.FindNodes(N.PragmaRegion).visit(sect)
                r = len(regs)
                self.run.probe('regions_formed', r)
            elif q == 'find_calls':
                r = len(ir.FindNodes(N.CallStatement).visit(sect))
            elif q == 'read_pragmas':
                ns = ir.FindNodes((N.Loop, N.CallStatement, N.VariableDeclaration)).visit(sect)
                r = sum(1 for n in ns if getattr(n, 'pragma', None))
                self.run.probe('pragmas_attached_nodes', r)
            elif q == 'read_dfa':
                if self.dfa_routine:
                    try:
                        r = sum(len(n.live_symbols) for n in ir.FindNodes(N.Assignment).visit(self.routine.body))
                    except RuntimeError:
                        r = 'dataflow information not available'     # e.g. an inner context detached it
            elif q == 'fgen':
                r = None      # PragmaRegion has no fgen handler while attached: not part of the statement
            if unit is self.routine and q in ('read_dfa',):
                break
        self.run.event('q', q, r)

    def enter(self, c, fault_first):
        kind = c['ctx']
        unit = self.unit(c)
        PU, AN = self.PU, self.AN
        self.depth += 1
        self.maxdepth = max(self.maxdepth, self.depth)
        self.entered += 1
        self.run.event('enter', kind, c['target'], self.depth)

        def body():
            if fault_first:
                self.fault_depth = self.depth
                self.run.event('fault', 'first-in-body', self.depth)
                raise SimFault('injected as first body step')
            self.block(c['body'])

        try:
            if kind == 'pragmas':
                cm = PU.pragmas_attached(unit, self.types(c), attach_pragma_post=c['post'])
            elif kind == 'regions':
                cm = PU.pragma_regions_attached(unit, keyword=c['keyword'])
            elif kind == 'dfa':
                cm = AN.dataflow_analysis_attached(unit)
            else:
                cm = None
            if cm is not None:
                try:
                    cm.__enter__()
                except Exception as e:  # pylint: disable=broad-except
                    self.inconclusive = True
                    self.run.probe('attach_raised_inconclusive')
                    self.run.event('attach-raised', type(e).__name__)
                    raise SimFault('attach itself raised') from e
                if kind == 'dfa':
                    self.dfa_depth += 1
                    self.dfa_routine += unit is self.routine
                exc = (None, None, None)
                try:
                    body()
                except BaseException as e:  # pylint: disable=broad-except
                    exc = (type(e), e, e.__traceback__)
                finally:
                    if kind == 'dfa':
                        self.dfa_depth -= 1
                        self.dfa_routine -= unit is self.routine
                try:
                    cm.__exit__(*exc)
                except SimFault:
                    raise
                except Exception as e:  # pylint: disable=broad-except
                    if exc[1] is not e:
                        self.detach_error = f'{kind} context exit raised {type(e).__name__}: {e}'
                        self.run.event('detach-raised', kind, type(e).__name__)
                        raise SimFault('detach raised') from e
                    raise
                if exc[1] is not None:
                    raise exc[1]
            else:
                # explicit function pairs, used in the same nesting discipline; the caller
                # (the harness) provides the try/finally a careful user would write
                self.explicit(kind, c, unit, body)
        finally:
            self.depth -= 1
            self.run.event('exit', kind, self.depth)

    def explicit(self, kind, c, unit, body):
        PU, AN = self.PU, self.AN
        types = self.types(c)
        try:
            if kind == 'x_pragmas':
                for sec in ('spec', 'body'):
                    if hasattr(unit, sec):
                        setattr(unit, sec, PU.attach_pragmas(getattr(unit, sec), types, attach_pragma_post=c['post']))
            elif kind == 'x_regions':
                for sec in ('spec', 'body'):
                    if hasattr(unit, sec):
                        setattr(unit, sec, PU.attach_pragma_regions(getattr(unit, sec), keyword=c['keyword']))
            else:
                AN.attach_dataflow_analysis(unit)
                self.dfa_depth += 1
                self.dfa_routine += unit is self.routine
        except Exception as e:  # pylint: disable=broad-except
            self.inconclusive = True
            self.run.probe('attach_raised_inconclusive')
            raise SimFault('attach itself raised') from e
        try:
            body()
        finally:
            try:
                if kind == 'x_pragmas':
                    for sec in ('spec', 'body'):
                        if hasattr(unit, sec):
                            setattr(unit, sec, PU.detach_pragmas(getattr(unit, sec), types,
                                                                 detach_pragma_post=c['post']))
                elif kind == 'x_regions':
                    for sec in ('spec', 'body'):
                        if hasattr(unit, sec):
                            setattr(unit, sec, PU.detach_pragma_regions(getattr(unit, sec)))
                else:
                    self.dfa_depth -= 1
                    self.dfa_routine -= unit is self.routine
                    AN.detach_dataflow_analysis(unit)
            except Exception as e:  # pylint: disable=broad-except
                self.detach_error = f'explicit {kind} detach raised {type(e).__name__}: {e}'
                raise SimFault('detach raised') from e

    # -- oracle ------------------------------------------------------------------------------
    def judge(self, before, after):
        run = self.run
        npragmas = render_unit(self.scenario).count('!$')
        run.nontrivial = npragmas >= 1 and (self.entered >= 2 or (self.fault_depth or 0) >= 1)
        if self.inconclusive:
            return
        if self.detach_error:
            run.violate('detach-raised', self.detach_error)
            return
        for name in ('routine', 'module'):
            b, a = before[name], after[name]
            if a['fgen'] != b['fgen']:
                run.violate('fgen-differs', f'{name}: generated code changed:\n' + _diff(b['fgen'], a['fgen']))
            if a['dump'] != b['dump']:
                run.violate('structure-differs', f'{name}: IR structure changed: ' + _first_diff(b['dump'], a['dump']))
            if a['regions']:
                run.violate('region-left', f'{name}: {a["regions"]} PragmaRegion nodes remain after detaching')
            if a['attached'] != b['attached']:
                run.violate('pragma-left-attached', f'{name}: {a["attached"]} nodes still carry an attached pragma '
                                                    f'(before: {b["attached"]})')
            if a['dfa']:
                run.violate('dataflow-left', f'{name}: {a["dfa"]} nodes still carry dataflow information')
            lost = {i: t for i, t in b['ids'].items() if i not in a['ids']}
            if lost:
                run.violate('identity-lost', f'{name}: {len(lost)} node objects of the original tree are no longer '
                                             f'in the tree: {sorted(set(lost.values()))}')
            if a['cons'] != b['cons']:
                run.violate('conservative-differs', f'{name}: conservative output changed:\n' +
                            _diff(b['cons'], a['cons']))
            if a['status'] != b['status']:
                run.probe('source_status_flips', abs(a['status'] - b['status']))


def _diff(a, b):
    import difflib  # pylint: disable=import-outside-toplevel
    return '\n'.join(list(difflib.unified_diff(a.splitlines(), b.splitlines(), lineterm='', n=1))[:24])


def _first_diff(a, b, path=''):
    if type(a) is not type(b):
        return f'{path}: {str(a)[:120]} != {str(b)[:120]}'
    if isinstance(a, tuple):
        if len(a) != len(b):
            return f'{path}: length {len(a)} != {len(b)}: {str(a)[:160]} != {str(b)[:160]}'
        for i, (x, y) in enumerate(zip(a, b)):
            if x != y:
                return _first_diff(x, y, f'{path}/{i}')
    return f'{path}: {str(a)[:120]} != {str(b)[:120]}'
