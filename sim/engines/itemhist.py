"""
batchworld/history -- C25: renaming, duplicating and removing items keeps the
scheduler cache and graph consistent (history class, DESIGN R5).

A sequence of Scheduler.process steps (ModuleWrap, Dependency, DuplicateKernel
with/without subgraph, RemoveKernel, Idem) is applied to one real Scheduler on
a generated project, under the environment-order seams.  After every step the
invariants below are evaluated on the *real* item_cache, graph, config and IR;
after a final FileWrite a fresh Scheduler over the written files (plus the
originals that were not replaced) must resolve every dependency.
"""
import logging

from sim.engines import batchgen as BG
from sim.engines.base import Engine
from sim.engines.batch import write_project, loki_config
from sim.kernel import HarnessError
from sim.seams import NxProxy, OrderedSetSeam, Patches

STEP_SEQS = (
    ('Idem',), ('ModuleWrap',), ('ModuleWrap', 'Dependency'), ('Dependency',), ('Duplicate',), ('DuplicateSub',),
    ('Remove',), ('Duplicate', 'Remove'), ('Remove', 'Duplicate'), ('Duplicate', 'Dependency'),
    ('Remove', 'ModuleWrap', 'Dependency'), ('Duplicate', 'ModuleWrap', 'Dependency'),
    ('DuplicateSub', 'Dependency'), ('Idem', 'ModuleWrap', 'Dependency', 'Idem'),
    # two renaming passes with different suffixes (e.g. one per processing mode)
    ('Dependency', 'Dependency2'), ('ModuleWrap', 'Dependency', 'Dependency2'), ('Duplicate', 'Dependency', 'Dependency2'),
)


class ItemHistoryEngine(Engine):
    name = 'batchworld/history'
    props = ('C25',)
    real = ('Scheduler.process / rekey_item_cache / creates_items rediscovery', 'ItemFactory.item_cache', 'SGraph',
            'SchedulerConfig.routines', 'ModuleWrapTransformation', 'DependencyTransformation', 'DuplicateKernel',
            'RemoveKernel', 'IdemTransformation', 'FileWriteTransformation', 'REGEX and FP frontends')
    stubs = ('set order in Scheduler._discover and topological tie-breaks in SFilter -> simulator-chosen legal orders',
             'a recording probe transformation for the "later processing visits them" clause')
    fault_kinds = ('adversarial_set_order_runs', 'adversarial_topo_order_runs')
    probes = ('steps_applied', 'histories_with_rename', 'histories_with_two_renames', 'histories_with_duplicate', 'histories_with_remove',
              'final_rediscovery_runs', 'step_raised_inconclusive', 'set_order_choice_points', 'topo_choice_points')
    nontrivial_rule = ('a history is non-trivial if it applied >= 1 item-renaming/creating/removing step and an order '
                       'seam had >= 1 choice point; distinct = digest of (project, config, steps, graph after each step)')
    hashseed_independent = False

    def setup(self):
        import loki  # pylint: disable=import-outside-toplevel,unused-import
        import loki.batch.scheduler as S  # pylint: disable=import-outside-toplevel
        import loki.batch.sfilter as F  # pylint: disable=import-outside-toplevel
        from loki.logging import default_logger  # pylint: disable=import-outside-toplevel
        self.S, self.F = S, F
        default_logger.setLevel(logging.CRITICAL + 1)

    def gen(self, g, prop, tier):
        style = g.weighted('style', [('ifs', 6), ('groups', 2), ('general', 1)])
        # project sizes do not grow with the tier (see plan.py)
        proj = BG.gen_project(g, 'quick', style=style)
        plain = g.flip('plain', 3, 4)
        for P in proj['procs'].values():
            P['external'] = None
            P['ext_mod'] = None
            if plain:
                # the core shape the batch transformations are written for: qualified imports, no recursion
                P['recursive'] = False
                for c in P['calls']:
                    if c['via'] in ('rename', 'unqual'):
                        c['via'] = 'only'
        cfg = BG.gen_config(g, proj, tier)
        if plain:
            if len(cfg['seeds']) > 1:
                drop = [s.split('#')[-1] for s in cfg['seeds'][1:]]
                cfg['seeds'] = cfg['seeds'][:1]
                for k in list(cfg['routines']):
                    if k.split('#')[-1] in drop and cfg['routines'][k].get('role') == 'driver':
                        del cfg['routines'][k]
            seed0 = cfg['seeds'][0].split('#')[-1]
            for k, rc in cfg['routines'].items():
                if rc.get('role') == 'driver' and k.split('#')[-1] != seed0:
                    rc['role'] = 'kernel'
        cfg['default']['strict'] = False
        cfg['default']['mode'] = 'idem'
        for rc in cfg['routines'].values():
            rc.pop('mode', None)
        if g.flip('seed_as_kernel', 1, 4):
            # a kernel-role root that has no entry in the routines config
            s0 = cfg['seeds'][0].split('#')[-1]
            for k in list(cfg['routines']):
                if k.split('#')[-1] == s0:
                    del cfg['routines'][k]
        seeds = [s.split('#')[-1] for s in cfg['seeds']]
        kernels = [n for n in proj['order'] if n not in seeds]
        if g.flip('oneunitperfile', 1, 2):
            files = []
            for f in proj['files']:
                for i, u in enumerate(f['units']):
                    d = f['path'].rsplit('/', 1)[0] + '/' if '/' in f['path'] else ''
                    files.append({'path': f['path'] if i == 0 else f'{d}{u[1]}.F90', 'units': [u]})
            proj['files'] = files
        excluded = set()
        for rc in list(cfg['routines'].values()) + [cfg['default']]:
            for key in ('disable', 'block', 'ignore'):
                excluded |= {x.split('#')[-1] for x in rc.get(key, [])}
        kernels = [k for k in kernels if k not in excluded]
        steps = list(g.pick('steps', STEP_SEQS))
        if not kernels:
            steps = [s for s in steps if not s.startswith(('Duplicate', 'Remove'))] or ['Idem']
        return {'proj': proj, 'cfg': cfg, 'steps': steps, 'style': style,
                'dup_kernels': self.pick_dup_kernels(g, proj, kernels),
                'rem_kernels': g.sample('remk', kernels, min(1, len(kernels))),
                'suffix': g.pick('suffix', ['_test', '_LOKI']), 'suffix2': g.pick('suffix2', ['_b', '_X2']),
                'final_write': g.flip('finalwrite', 2, 3),
                'set_random': g.flip('setrnd', 4, 5), 'topo_random': g.flip('toporand', 4, 5)}

    @staticmethod
    def pick_dup_kernels(g, proj, kernels):
        if not kernels:
            return []
        first = g.pick('dupk', kernels)
        out = [first]
        m = proj['procs'][first]['mod']
        mates = [k for k in kernels if k != first and proj['procs'][k]['mod'] == m and m is not None]
        if mates and g.flip('dupmates', 1, 2):
            out += mates
        rest = [k for k in kernels if k not in out]
        if rest and g.flip('dupmore', 1, 4):
            out.append(g.pick('dupk2', rest))
        return out

    def describe(self, scenario):
        d = {k: v for k, v in scenario.items() if k != 'proj'}
        d['files'] = {p: t.splitlines() for p, t in BG.emit_files(scenario['proj']).items()}
        return d

    def shrink(self, scenario, prop):
        s = scenario
        for i in range(len(s['steps'])):
            if len(s['steps']) > 1:
                c = self.clone(s)
                del c['steps'][i]
                if 'Dependency' in c['steps'] and 'ModuleWrap' in c['steps'] and \
                        c['steps'].index('ModuleWrap') > c['steps'].index('Dependency'):
                    continue
                yield c
        proj = s['proj']
        for p, P in proj['procs'].items():
            for key in ('calls', 'uses_var', 'uses_type', 'uses_param', 'calls_iface'):
                for i in range(len(P.get(key, []))):
                    c = self.clone(s)
                    del c['proj']['procs'][p][key][i]
                    yield c
            if P['recursive']:
                c = self.clone(s)
                c['proj']['procs'][p]['recursive'] = False
                yield c
        for k in list(s['cfg']['routines']):
            c = self.clone(s)
            if c['cfg']['routines'][k].get('role') == 'driver':
                if len(c['cfg']['routines'][k]) > 1:
                    c['cfg']['routines'][k] = {'role': 'driver'}
                    yield c
            else:
                del c['cfg']['routines'][k]
                yield c
        for k in ('disable', 'enable_imports'):
            if k in s['cfg']['default']:
                c = self.clone(s)
                del c['cfg']['default'][k]
                yield c
        if len(s['cfg']['seeds']) > 1:
            for i in range(len(s['cfg']['seeds'])):
                c = self.clone(s)
                del c['cfg']['seeds'][i]
                yield c
        for key in ('final_write', 'set_random', 'topo_random'):
            if s[key]:
                c = self.clone(s)
                c[key] = False
                yield c
        for i, f in enumerate(proj['files']):
            if '/' in f['path']:
                c = self.clone(s)
                c['proj']['files'][i]['path'] = f['path'].rsplit('/', 1)[1]
                yield c

    # -- execution ----------------------------------------------------------------
    def make_trafo(self, name, scenario):
        from loki.transformations import IdemTransformation  # pylint: disable=import-outside-toplevel
        from loki.transformations.build_system import (  # pylint: disable=import-outside-toplevel
            ModuleWrapTransformation, DependencyTransformation
        )
        from loki.transformations.dependency import DuplicateKernel, RemoveKernel  # pylint: disable=import-outside-toplevel
        if name == 'Idem':
            return IdemTransformation()
        if name == 'ModuleWrap':
            return ModuleWrapTransformation(module_suffix='_mod')
        if name == 'Dependency':
            return DependencyTransformation(suffix=scenario['suffix'], module_suffix='_mod')
        if name == 'Dependency2':
            return DependencyTransformation(suffix=scenario.get('suffix2', '_b'), module_suffix='_mod')
        if name in ('Duplicate', 'DuplicateSub'):
            return DuplicateKernel(duplicate_kernels=tuple(scenario['dup_kernels']), duplicate_suffix='_dupl',
                                   duplicate_subgraph=name == 'DuplicateSub')
        if name == 'Remove':
            return RemoveKernel(remove_kernels=tuple(scenario['rem_kernels']))
        raise HarnessError(name)

    def execute(self, scenario, run):
        from loki.batch import Scheduler, SchedulerConfig  # pylint: disable=import-outside-toplevel
        from loki.frontend import FP  # pylint: disable=import-outside-toplevel
        root = run.scratch / 'src'
        build = run.scratch / 'build'
        root.mkdir()
        build.mkdir()
        write_project(scenario['proj'], root)
        patches = Patches()
        patches.set(self.S, 'set', OrderedSetSeam(run, enabled=scenario['set_random']))
        patches.set(self.F, 'nx', NxProxy(run, enabled=scenario['topo_random']))
        if scenario['set_random']:
            run.probe('adversarial_set_order_runs')
        if scenario['topo_random']:
            run.probe('adversarial_topo_order_runs')
        steps = scenario['steps']
        if any(s in ('ModuleWrap', 'Dependency') for s in steps):
            run.probe('histories_with_rename')
        if 'Dependency2' in steps:
            run.probe('histories_with_two_renames')
        if any(s.startswith('Duplicate') for s in steps):
            run.probe('histories_with_duplicate')
        if 'Remove' in steps:
            run.probe('histories_with_remove')
        try:
            cfg = SchedulerConfig.from_dict(loki_config(scenario['cfg']))
            try:
                sched = Scheduler(paths=[root], config=cfg, seed_routines=list(scenario['cfg']['seeds']),
                                  full_parse=True, frontend=FP, output_dir=build)
            except Exception as e:  # pylint: disable=broad-except
                run.probe('step_raised_inconclusive')
                run.event('construct-raised', type(e).__name__)
                return
            self.check(run, scenario, sched, 'init', ())
            done = []
            for name in steps:
                t = self.make_trafo(name, scenario)
                try:
                    sched.process(t)
                except Exception as e:  # pylint: disable=broad-except
                    run.event('step-raised', name, type(e).__name__, str(e)[:120])
                    sig = f'step-raised:{name}:{type(e).__name__}:after:{"+".join(done) or "init"}' \
                        f':features={self.features(scenario)}'
                    run.violate('step-raised', f'{name} after {done} raised {type(e).__name__}: {str(e)[:200]}',
                                sig=sig)
                    return
                done.append(name)
                run.probe('steps_applied')
                self.check(run, scenario, sched, name, tuple(done))
                if run.violations:
                    return
            if scenario['final_write'] and not run.violations:
                self.final_write(run, scenario, sched, root, build, tuple(done))
        finally:
            patches.undo()
        run.nontrivial = any(s != 'Idem' for s in steps) and \
            (run.stats['set_order_choice_points'] + run.stats['topo_choice_points'] > 0)

    # -- invariants ------------------------------------------------------------------
    @staticmethod
    def features(scenario):
        proj, cfg = scenario['proj'], scenario['cfg']
        ref = BG.reference_graph(proj, cfg)
        reach = {n.split('#')[-1] for n, k in ref['nodes'].items() if k == 'proc'}
        f = set()
        if any(c['via'] == 'rename' for p in reach if p in proj['procs'] for c in proj['procs'][p]['calls']):
            f.add('alias')
        if any(c['via'] == 'unqual' for p in reach if p in proj['procs'] for c in proj['procs'][p]['calls']):
            f.add('unqualified-import')
        drivers = {k.split('#')[-1] for k, v in cfg['routines'].items() if v.get('role') == 'driver'}
        if any(proj['procs'][p]['recursive'] for p in reach if p in proj['procs'] and p in drivers):
            f.add('recursive-driver')
        if any(proj['procs'][p]['recursive'] for p in reach if p in proj['procs'] and p not in drivers):
            f.add('recursive-kernel')
        # layout features: modules/files of which only a part is in the call tree, or that hold several units
        rnodes = {n.lower() for n in ref['nodes']}
        unit_reached = {}
        for m in proj['mods']:
            mp = list(m['procs']) + list((m.get('iface') or {}).get('procs', []))
            r = [q for q in mp if f"{m['name']}#{proj['procs'][q].get('ename', q)}".lower() in rnodes]
            unit_reached[m['name']] = bool(r) or any(n.startswith(m['name'].lower() + '#') or n == m['name'].lower()
                                                     for n in rnodes)
            if r and len(r) < len(mp):
                f.add('partially-reached-module')
            elif len(r) >= 2:
                f.add('multi-procedure-module')
        for q, Q in proj['procs'].items():
            if Q['mod'] is None:
                unit_reached[q] = f'#{q}'.lower() in rnodes
        for fl in proj['files']:
            if len(fl['units']) > 1:
                r = [u for u in fl['units'] if unit_reached.get(u[1])]
                if r and len(r) < len(fl['units']):
                    f.add('partially-reached-file')
                elif len(r) >= 2:
                    f.add('multi-unit-file')
        if any(st.startswith('Duplicate') for st in scenario['steps']):
            for m in proj['mods']:
                mp = list(m['procs']) + list((m.get('iface') or {}).get('procs', []))
                dk = set(mp) & set(scenario['dup_kernels'])
                if any(c['to'] in dk for q in mp if q in proj['procs'] for c in proj['procs'][q]['calls']):
                    f.add('dup-kernel-called-within-its-module')
                if dk and any(BG.matches(BG.item_name(proj, q), cfg['seeds']) for q in mp if q in proj['procs']):
                    f.add('dup-kernel-module-holds-a-seed')
        for m in proj['mods']:
            r = [q for q in m['procs'] if q in reach]
            if len(r) >= 2 and any(q in drivers for q in r):
                f.add('driver-shares-module-with-kernels')
            excl_entries = [x for rc in list(cfg['routines'].values()) + [cfg['default']]
                            for key in ('disable', 'block') for x in rc.get(key, [])]
            if r and any(BG.matches_with_parents(BG.item_name(proj, q), excl_entries) for q in m['procs']
                         if BG.item_name(proj, q).lower() not in rnodes or q not in r):
                f.add('module-partially-excluded')
            ign = [ref['ignored'].get(BG.item_name(proj, q)) for q in r]
            if any(i is False for i in ign) and any(i is not False for i in ign):
                f.add('module-partially-ignored')
        if any(m.get('mutual') for m in proj['mods']):
            f.add('mutual-recursion')
        if any(m.get('muses') for m in proj['mods']):
            f.add('module-level-import')
        # reachability that ignores the pruning by config lists (transformations can re-open pruned branches)
        raw = set()
        todo = [q for q in proj['procs'] if any(BG.matches(BG.item_name(proj, q), [sd]) for sd in cfg['seeds'])]
        while todo:
            q = todo.pop()
            if q in raw:
                continue
            raw.add(q)
            todo += [c['to'] for c in proj['procs'][q]['calls']]
        if any(Q.get('calls_iface') for q, Q in proj['procs'].items() if q in reach or q in raw):
            f.add('generic-interface-call')
        # ModuleWrap moves the config entry of a wrapped free subroutine to '<sub>_mod#<sub>' while callers without
        # import keep resolving to the unwrapped '#<sub>': its disable/block/ignore/expand settings are lost
        if 'ModuleWrap' in scenario['steps']:
            for k, rc in cfg['routines'].items():
                q = k.split('#')[-1]
                if q in proj['procs'] and proj['procs'][q]['mod'] is None and (q in reach or q in raw) and \
                        (any(key in rc for key in ('disable', 'block', 'ignore')) or rc.get('expand') is False):
                    f.add('wrapped-free-subroutine-has-item-config')
        if len(drivers & reach) > 1 or any(v.get('role') == 'driver' for k, v in cfg['routines'].items()
                                           if k.split('#')[-1] not in [s.split('#')[-1] for s in cfg['seeds']]):
            f.add('driver-below-seed')
        # a seed that is also called from the call tree of another seed
        seednames = [BG.item_name(proj, q) for q in proj['procs'] for sd in cfg['seeds'] if BG.matches(BG.item_name(proj, q), [sd])]
        if any(b in seednames for _, b in ref['edges']):
            f.add('seed-is-callee')
        keys = {k.split('#')[-1] for k in cfg['routines']}
        dupset = set(scenario['dup_kernels'])
        if 'DuplicateSub' in scenario['steps']:
            # the whole subgraph below the kernels is duplicated
            todo = list(dupset)
            while todo:
                q = todo.pop()
                for c in proj['procs'].get(q, {}).get('calls', []):
                    if c['to'] not in dupset:
                        dupset.add(c['to'])
                        todo.append(c['to'])
        if dupset & keys and any(s.startswith('Duplicate') for s in scenario['steps']):
            f.add('duplicated-kernel-has-item-config')
        # a module that is reached through an ignored routine only (e.g. for a parameter) while one of its
        # procedures is an active item
        for q in reach:
            if q in proj['procs'] and ref['ignored'].get(BG.item_name(proj, q)) is not False:
                Q = proj['procs'][q]
                mods_used = set(Q['uses_var']) | set(Q['uses_param']) | {t[0] for t in Q['uses_type']}
                for m in proj['mods']:
                    if m['name'] in mods_used and any(
                            ref['ignored'].get(BG.item_name(proj, r)) is False for r in m['procs'] if r in reach):
                        f.add('module-imported-by-ignored-routine-has-active-procedure')
        if any(key in rc for rc in list(cfg['routines'].values()) + [cfg['default']]
               for key in ('ignore', 'block', 'disable')) or \
                any(rc.get('expand') is False for rc in cfg['routines'].values()):
            f.add('pruned-graph')
        if any(v is None for v in ref['ignored'].values()):
            f.add('ignored-on-some-paths-only')
        # a routine that is in the call tree through one caller but disabled/blocked in the entry of another
        for k, rc in cfg['routines'].items():
            p = k.split('#')[-1]
            if p in reach and p in proj['procs']:
                excl = {x.split('#')[-1] for key in ('disable', 'block') for x in rc.get(key, [])}
                if any(c['to'] in excl and c['to'] in reach for c in proj['procs'][p]['calls']):
                    f.add('excluded-on-some-paths-only')
        return '+'.join(sorted(f)) or 'none'

    def check(self, run, scenario, sched, label, done):
        from loki.batch import ProcedureItem, ExternalItem, FileItem, Transformation  # pylint: disable=import-outside-toplevel
        from loki.ir import nodes as ir, FindNodes  # pylint: disable=import-outside-toplevel
        tag = f'after {list(done) or "construction"}'
        suffix = ':after:' + ('+'.join(done) or 'init') + ':features=' + self.features(scenario)

        def bad(cls, detail):
            run.violate(cls, f'{tag}: {detail}', sig=cls + suffix)

        cache = sched.item_factory.item_cache
        for k, it in cache.items():
            if k != it.name.lower():
                bad('cache-key', f'item_cache key {k!r} holds item named {it.name!r}')
        items = list(sched.items)
        names = [it.name.lower() for it in items]
        run.event('graph', label, tuple(sorted(names)),
                  tuple(sorted((a.name.lower(), b.name.lower()) for a, b in sched.dependencies)))
        if len(set(names)) != len(names):
            bad('graph-duplicate-names', f'two graph nodes share a name: {sorted(n for n in names if names.count(n) > 1)[:4]}')
        seen_ir = {}
        for it in items:
            if isinstance(it, ExternalItem):
                continue
            try:
                node = it.ir
            except Exception as e:  # pylint: disable=broad-except
                bad('ir-unresolved', f'{it.name}: resolving the IR raised {type(e).__name__}: {str(e)[:120]}')
                continue
            if node is None:
                bad('ir-unresolved', f'{it.name}: item has no IR')
                continue
            if isinstance(it, ProcedureItem):
                if node.name.lower() != it.local_name.split('#')[-1].lower():
                    bad('ir-name', f'item {it.name} resolves to a routine named {node.name}')
                if id(node) in seen_ir:
                    bad('ir-shared', f'items {seen_ir[id(node)]} and {it.name} resolve to the same routine object')
                seen_ir[id(node)] = it.name
            if cache.get(it.name) is not it:
                bad('cache-mismatch', f'graph item {it.name} is not the item stored under its name in the item cache')
            if it not in sched.sgraph._graph:
                bad('graph-membership', f'{it.name} iterates as a graph node but "item in graph" is False')
            if sched[it.name] is not it:
                bad('scheduler-lookup', f'scheduler[{it.name!r}] does not return the graph item')
        # every seed names an item of the graph
        for sd in sched.seeds:
            sd = str(sd).lower()
            if not (sd in names if '#' in sd else any(n.split('#')[-1] == sd for n in names)):
                bad('seed-not-an-item', f'seed {sd!r} names no item of the graph {sorted(names)[:6]}')
        # steps that only rename keep the number of procedure items
        nproc = sum(1 for it in items if isinstance(it, ProcedureItem) and not it.is_ignored)
        prev = run.__dict__.get('_c25_nproc')
        if prev is not None and label in ('Idem', 'Dependency', 'Dependency2') and nproc != prev:
            bad('items-lost', f'{label} changed the number of non-ignored procedure items in the graph from {prev} to {nproc}')
        run.__dict__['_c25_nproc'] = nproc
        # every call in a processed routine refers to a unit that exists in the graph (or is excluded by config)
        local_names = {it.local_name.split('#')[-1].lower() for it in items}
        gdis = tuple(x.lower() for x in sched.config.disable)
        for it in items:
            if not isinstance(it, ProcedureItem) or it.is_ignored:
                continue
            excluded = set(str(x).lower().split('#')[-1] for x in (*it.disable, *it.block, *gdis))
            if not it.expand:
                continue
            succ = {s.local_name.split('#')[-1].lower() for s in sched.sgraph._graph.successors(it)}
            try:
                calls = FindNodes(ir.CallStatement).visit(it.ir.body)
            except Exception:  # pylint: disable=broad-except
                continue
            for c in calls:
                cname = str(getattr(c.name.type, 'use_name', None) or c.name).lower()
                if '%' in cname or cname in excluded or cname == it.local_name.split('#')[-1].lower():
                    continue
                if cname not in local_names:
                    bad('dangling-call', f'{it.name} calls {cname!r} but no item of that name exists in the graph')
                elif cname not in succ:
                    # the back edge of a recursion cycle is removed on purpose
                    import networkx as nx  # pylint: disable=import-outside-toplevel
                    callee = next((x for x in items if x.local_name.split('#')[-1].lower() == cname), None)
                    if callee is not None and nx.has_path(sched.sgraph._graph, callee, it):
                        continue
                    bad('call-not-a-dependency', f'{it.name} calls {cname!r} but the graph has no edge to it')
        # removed kernels are gone, duplicated kernels exist next to the original
        # (not judged right after ModuleWrap: until DependencyTransformation has added the imports of the
        # wrapper modules, callers still resolve to the unwrapped originals re-read from disk)
        if ('Remove' in done or any(d.startswith('Duplicate') for d in done)) and done[-1] != 'ModuleWrap':
            for it in items:
                if not isinstance(it, ProcedureItem) or it.is_ignored or not it.expand:
                    continue
                try:
                    cnames = [str(getattr(c.name.type, 'use_name', None) or c.name).lower()
                              for c in FindNodes(ir.CallStatement).visit(it.ir.body)]
                except Exception:  # pylint: disable=broad-except
                    continue
                base = [c.replace(scenario['suffix'].lower(), '').replace(
                    scenario.get('suffix2', '_b').lower() if 'Dependency2' in done else '\0', '') for c in cnames]
                if 'Remove' in done and not any(d.startswith('Duplicate') for d in done[done.index('Remove'):]):
                    for k in scenario['rem_kernels']:
                        if k in base and k not in [x.split('#')[-1] for x in (*it.block, *it.disable)]:
                            bad('removed-kernel-still-called', f'{it.name} still calls the removed kernel {k!r}')
                if any(d.startswith('Duplicate') for d in done) and 'Remove' not in done and \
                        '_dupl' not in it.local_name.lower():
                    # (a routine that is itself a duplicate created by this step is a copy of its original at
                    # the time of copying; whether the copy calls further duplicates is not stated anywhere)
                    for k in scenario['dup_kernels']:
                        if k in base and f'{k}_dupl' not in base and \
                                k not in [x.split('#')[-1] for x in (*it.block, *it.disable)]:
                            bad('duplicate-not-called', f'{it.name} calls {k!r} but not its duplicate')
        # later processing visits exactly the current graph's selected items
        log = []

        class Probe(Transformation):
            def transform_subroutine(self, routine, **kwargs):
                log.append(kwargs['item'].name.lower())
        try:
            sched.process(Probe())
        except Exception as e:  # pylint: disable=broad-except
            bad('probe-raised', f'processing a no-op transformation raised {type(e).__name__}: {str(e)[:160]}')
            return
        exp = sorted(it.name.lower() for it in items if isinstance(it, ProcedureItem) and not it.is_ignored)
        if sorted(log) != exp:
            bad('probe-visit', f'a later transformation visited {sorted(set(log) ^ set(exp))[:6]} differently from '
                               f'the graph\'s procedure items')
        _ = FileItem

    def final_write(self, run, scenario, sched, root, build, done):
        from loki.batch import Scheduler, SchedulerConfig  # pylint: disable=import-outside-toplevel
        from loki.frontend import FP  # pylint: disable=import-outside-toplevel
        from loki.transformations.build_system import FileWriteTransformation  # pylint: disable=import-outside-toplevel
        import shutil  # pylint: disable=import-outside-toplevel
        suffix = ':after:' + ('+'.join(done) or 'init') + ':features=' + self.features(scenario)
        run.probe('final_rediscovery_runs')
        try:
            sched.process(FileWriteTransformation())
        except Exception as e:  # pylint: disable=broad-except
            run.violate('write-raised', f'FileWrite after {list(done)} raised {type(e).__name__}: {str(e)[:160]}',
                        sig='write-raised' + suffix)
            return
        written = sorted(p.name for p in build.iterdir())
        run.event('written', tuple(written))
        # the "linked program": written files plus every original that was not replaced by a written file
        out = run.scratch / 'out'
        out.mkdir()
        replaced = {n.split('.idem.')[0].lower() for n in written}
        for p in build.iterdir():
            shutil.copy(p, out / p.name)
        for f in scenario['proj']['files']:
            src = root / f['path']
            if src.stem.lower() not in replaced:
                shutil.copy(src, out / ('orig_' + src.name))
        # seeds keep their names (drivers are not renamed); everything reachable must resolve strictly
        cfg = {'default': {'role': 'kernel', 'expand': True, 'strict': True,
                           'disable': list(scenario['cfg']['default'].get('disable', []))}, 'routines': {}}
        for k, v in scenario['cfg']['routines'].items():
            if v.get('role') == 'driver':
                cfg['routines'][k] = {'role': 'driver'}
        # excluded names keep external status: collect every disable/block of the original config
        for v in list(scenario['cfg']['routines'].values()) + [scenario['cfg']['default']]:
            for key in ('disable', 'block', 'ignore'):
                for x in v.get(key, []):
                    n = x.split('#')[-1]
                    # ignored items are "processed elsewhere": their transformed versions (renamed with the
                    # suffix) are provided by another library, not by this conversion
                    cfg['default']['disable'] += [n, n + scenario['suffix'], f'{n}_dupl', f'{n}_dupl' + scenario['suffix']]
                    if 'Dependency2' in done:
                        s2_ = scenario.get('suffix2', '_b')
                        cfg['default']['disable'] += [n + scenario['suffix'] + s2_, f'{n}_dupl' + scenario['suffix'] + s2_]
        for k, v in scenario['cfg']['routines'].items():
            if v.get('expand') is False:
                cfg['routines'].setdefault(k, {})['expand'] = False
                n = k.split('#')[-1]
                cfg['routines'].setdefault(n + scenario['suffix'], {})['expand'] = False
                if 'Dependency2' in done:
                    cfg['routines'].setdefault(n + scenario['suffix'] + scenario.get('suffix2', '_b'), {})['expand'] = False
        try:
            s2 = Scheduler(paths=[out], config=SchedulerConfig.from_dict(cfg),
                           seed_routines=list(scenario['cfg']['seeds']), full_parse=True, frontend=FP)
            n2 = sorted(it.name.lower() for it in s2.items)
            run.event('rediscovered', tuple(n2))
        except Exception as e:  # pylint: disable=broad-except
            run.violate('output-unresolved', f'a fresh strict Scheduler over the written sources (after {list(done)}) '
                                             f'cannot resolve the program: {type(e).__name__}: {str(e)[:200]}',
                        sig='output-unresolved' + suffix)
