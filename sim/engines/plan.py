"""
batchworld/plan -- C24: planning mode predicts exactly the files a conversion writes.

In production ``plan`` and ``convert`` are two processes with different hash
seeds and possibly different directory enumeration orders.  The simulation runs
the real CLI (``loki.cli.loki_transform`` through click's CliRunner, in-process)
twice on identical copies of one generated tree -- once ``plan``, once
``convert`` -- with *independently drawn* orders (set order of discovered paths,
topological tie-breaks) and a storage recorder on ``Sourcefile.to_file``.
"""
import logging
import re
from pathlib import Path

from sim.engines import batchgen as BG
from sim.engines.base import Engine
from sim.engines.batch import write_project
from sim.kernel import HarnessError
from sim.seams import NxProxy, OrderedSetSeam, Patches

PIPELINES = {
    'idem': ['Idem'],
    'wrap': ['Idem', 'ModuleWrap'],
    'dep': ['ModuleWrap', 'Dependency'],
    'idemdep': ['Idem', 'ModuleWrap', 'Dependency'],
    'dup': ['Duplicate', 'ModuleWrap', 'Dependency'],
    'rem': ['Remove', 'Idem'],
    'duprem': ['Duplicate', 'Remove', 'ModuleWrap', 'Dependency'],
    'duponly': ['Duplicate', 'Idem'],
    'rem2': ['Remove', 'Remove2', 'Idem'],
    'dupremonly': ['Duplicate', 'Remove'],
}


def trafo_table(scen):
    t = {
        'Idem': {'classname': 'IdemTransformation', 'module': 'loki.transformations'},
        'ModuleWrap': {'classname': 'ModuleWrapTransformation', 'module': 'loki.transformations.build_system',
                       'options': {'module_suffix': '_MOD'}},
        'Dependency': {'classname': 'DependencyTransformation', 'module': 'loki.transformations.build_system',
                       'options': {'suffix': scen['dep_suffix'], 'module_suffix': '_MOD'}},
        'Duplicate': {'classname': 'DuplicateKernel', 'module': 'loki.transformations.dependency',
                      'options': {'duplicate_kernels': scen['dup_kernels'], 'duplicate_suffix': scen.get('dup_suffix', '_dupl'),
                                  'duplicate_subgraph': scen['dup_subgraph']}},
        'Remove': {'classname': 'RemoveKernel', 'module': 'loki.transformations.dependency',
                   'options': {'remove_kernels': scen['rem_kernels']}},
        'Remove2': {'classname': 'RemoveKernel', 'module': 'loki.transformations.dependency',
                    'options': {'remove_kernels': scen.get('rem_kernels2', [])}},
    }
    fw = {}
    if scen['fw_suffix']:
        fw['suffix'] = scen['fw_suffix']
    if scen['fw_modvars']:
        fw['include_module_var_imports'] = True
    t['FileWriteTransformation'] = {'classname': 'FileWriteTransformation',
                                    'module': 'loki.transformations.build_system', 'options': fw}
    return t


class PlanEngine(Engine):
    name = 'batchworld/plan'
    props = ('C24',)
    real = ('loki.cli.loki_transform plan / convert (click CliRunner, in-process)', 'Scheduler incl. PLAN strategy',
            'CMakePlanTransformation', 'FileWriteTransformation', 'IdemTransformation, ModuleWrapTransformation, '
            'DependencyTransformation, DuplicateKernel, RemoveKernel', 'SchedulerConfig.from_file (TOML)',
            'REGEX and FP frontends, fgen')
    stubs = ('builtin set as seen by loki.batch.scheduler -> choose-permuted order, drawn independently for the plan '
             'and the convert run', 'networkx.topological_sort in SFilter -> choose-driven valid order, independently '
             'per run', 'Sourcefile.to_file wrapped by a recorder (the real write still happens)')
    fault_kinds = ('adversarial_set_order_runs', 'adversarial_topo_order_runs')
    probes = ('set_order_choice_points', 'topo_choice_points', 'pipelines_with_rename', 'pipelines_with_duplicate',
              'pipelines_with_remove', 'replicated_files', 'files_written', 'build_dir_outside_tree', 'root_given',
              'cli_failed_both', 'convert_failed', 'path_written_twice', 'header_dir_runs')
    nontrivial_rule = ('a run is non-trivial if the order seams had >= 1 choice point with >= 2 alternatives and the '
                       'conversion wrote >= 1 file; distinct = digest of (project, config, pipeline, plan lists, writes)')
    hashseed_independent = False

    def setup(self):
        import loki  # pylint: disable=import-outside-toplevel,unused-import
        import loki.batch.scheduler as S  # pylint: disable=import-outside-toplevel
        import loki.batch.sfilter as F  # pylint: disable=import-outside-toplevel
        from loki.logging import default_logger  # pylint: disable=import-outside-toplevel
        from loki.cli.loki_transform import cli  # pylint: disable=import-outside-toplevel
        from loki import Sourcefile  # pylint: disable=import-outside-toplevel
        self.S, self.F, self.cli, self.Sourcefile = S, F, cli, Sourcefile
        default_logger.setLevel(logging.CRITICAL + 1)

    def gen(self, g, prop, tier):
        # project sizes do not grow with the tier: the thorough tier explores the same distribution longer (the
        # unchanged tree has rare genuine defects in this space; the listed findings were collected on it)
        proj = BG.gen_project(g, 'quick')
        # keep the project inside what a conversion can process: no unresolved externals
        for P in proj['procs'].values():
            P['external'] = None
            P['ext_mod'] = None
            P['cinclude'] = g.flip('cinc', 1, 6)
        cfg = BG.gen_config(g, proj, tier)
        cfg['default']['strict'] = False
        cfg['default'].pop('mode', None)
        for rc in cfg['routines'].values():
            rc.pop('mode', None)
        names = list(proj['order'])
        kernels = [n for n in names if n not in [s.split('#')[-1] for s in cfg['seeds']]]
        for n in g.sample('repl', names, min(len(names), g.randint('nrepl', 0, 2))):
            key = next((k for k in cfg['routines'] if k.split('#')[-1] == n), n)
            cfg['routines'].setdefault(key, {})['replicate'] = True
        for n in g.sample('libs', names, min(len(names), g.randint('nlib', 0, 2))):
            key = next((k for k in cfg['routines'] if k.split('#')[-1] == n), n)
            cfg['routines'].setdefault(key, {})['lib'] = g.pick('lib', ['libA', 'libB'])
        pipe = g.weighted('pipe', [('idem', 3), ('wrap', 3), ('dep', 4), ('idemdep', 4), ('rem', 3), ('dup', 1),
                                   ('duprem', 1), ('duponly', 3), ('dupremonly', 2), ('rem2', 3)])
        if g.flip('oneunitperfile', 2, 3):
            files = []
            for f in proj['files']:
                for i, u in enumerate(f['units']):
                    d = f['path'].rsplit('/', 1)[0] + '/' if '/' in f['path'] else ''
                    files.append({'path': f['path'] if i == 0 else f'{d}{u[1]}.F90', 'units': [u]})
            proj['files'] = files
        scen = {
            'proj': proj, 'cfg': cfg, 'pipeline': pipe,
            'mode': g.pick('mode', ['idem', 'scc', 'scc-hoist', 'my_mode']),
            'dep_suffix': g.pick('depsuf', ['_LOKI', '_test']),
            'dup_kernels': g.sample('dupk', kernels, min(len(kernels), 1)) if kernels else [],
            'dup_subgraph': g.flip('dupsub'),
            'dup_suffix': g.pick('dupsuf', ['_dupl', '_dupl', '_DUPL', '_Dup2']),
            'rem_kernels': g.sample('remk', kernels, min(len(kernels), 1)) if kernels else [],
            'rem_kernels2': g.sample('remk2', kernels, min(len(kernels), 1)) if kernels else [],
            'header_file': g.choose('hdr', max(1, len(proj['files']))) if g.flip('usehdr', 1, 4) else None,
            'fw_suffix': g.pick('fwsuf', [None, None, '.F90', '.f90']),
            'fw_modvars': g.flip('fwmod', 1, 3),
            'build_outside': g.flip('bout'),
            'root': g.flip('root'),
            'set_random': g.flip('setrnd', 4, 5), 'topo_random': g.flip('toporand', 4, 5),
        }
        if not kernels and pipe in ('dup', 'rem', 'duprem', 'duponly', 'dupremonly', 'rem2'):
            scen['pipeline'] = 'idemdep'
        return scen

    def describe(self, scenario):
        d = {k: v for k, v in scenario.items() if k != 'proj'}
        d['files'] = sorted(f['path'] for f in scenario['proj']['files'])
        return d

    def shrink(self, scenario, prop):
        s = scenario
        proj = s['proj']
        for p, P in proj['procs'].items():
            for key in ('calls', 'uses_var', 'uses_type', 'uses_param', 'calls_iface'):
                for i in range(len(P.get(key, []))):
                    c = self.clone(s)
                    del c['proj']['procs'][p][key][i]
                    yield c
        for k in list(s['cfg']['routines']):
            c = self.clone(s)
            if c['cfg']['routines'][k].get('role') == 'driver':
                if len(c['cfg']['routines'][k]) > 1:
                    c['cfg']['routines'][k] = {'role': 'driver'}
                    yield c
            else:
                del c['cfg']['routines'][k]
                yield c
        for k in ('disable', 'enable_imports'):
            if k in s['cfg']['default']:
                c = self.clone(s)
                del c['cfg']['default'][k]
                yield c
        order = ['idem', 'wrap', 'dep', 'idemdep', 'rem', 'rem2', 'duponly', 'dupremonly', 'dup', 'duprem']
        for simpler in order[:order.index(s['pipeline'])]:
            c = self.clone(s)
            c['pipeline'] = simpler
            yield c
        for key, val in (('fw_suffix', None), ('fw_modvars', False), ('build_outside', False), ('root', False),
                         ('set_random', False), ('topo_random', False), ('dup_subgraph', False), ('mode', 'idem'),
                         ('header_file', None)):
            if s[key] != val:
                c = self.clone(s)
                c[key] = val
                yield c
        for i, f in enumerate(proj['files']):
            if '/' in f['path']:
                c = self.clone(s)
                c['proj']['files'][i]['path'] = f['path'].rsplit('/', 1)[1]
                yield c

    # -- execution -----------------------------------------------------------------
    def _cli(self, scenario, run, root, what, writes):
        import tomli_w  # pylint: disable=import-outside-toplevel
        from click.testing import CliRunner  # pylint: disable=import-outside-toplevel
        src = root / 'src'
        src.mkdir(parents=True)
        write_project(scenario['proj'], src)
        header = None
        if scenario.get('header_file') is not None and scenario['proj']['files']:
            # one source file lives in a separate "header" directory that is only given via --header
            f = scenario['proj']['files'][scenario['header_file'] % len(scenario['proj']['files'])]
            hdir = src / 'hdr'
            hdir.mkdir(exist_ok=True)
            header = hdir / Path(f['path']).name
            (src / f['path']).rename(header)
        build = (root / 'build') if not scenario['build_outside'] else (root.parent / f'build_{what}')
        build.mkdir(parents=True, exist_ok=True)
        cfg = scenario['cfg']
        config = {'default': dict(cfg['default']), 'routines': {k: dict(v) for k, v in cfg['routines'].items()},
                  'transformations': trafo_table(scenario),
                  'pipelines': {scenario['mode']: {'transformations': PIPELINES[scenario['pipeline']]}}}
        # the CLI takes seeds from the config: mark them
        for s in cfg['seeds']:
            key = next((k for k in config['routines'] if k.lower() == s.lower() or
                        k.split('#')[-1].lower() == s.split('#')[-1].lower()), s)
            config['routines'].setdefault(key, {})['role'] = 'driver'
        cfile = root / 'loki.config'
        cfile.write_text(tomli_w.dumps(config))
        srcargs = [f'--source={src}']
        if header is not None:
            # the search paths are the top-level directories without the header directory
            tops = sorted({p for p in src.iterdir() if p.name != 'hdr'})
            files_top = [p for p in tops if p.is_file()]
            srcargs = [f'--source={p}' for p in tops if p.is_dir()] + [f'--source={p}' for p in files_top]
            srcargs.append(f'--header={header}')
            run.probe('header_dir_runs')
        args = [what, f'--mode={scenario["mode"]}', f'--config={cfile}', '--frontend=fp', *srcargs,
                f'--build={build}', '--log-level=error']
        planfile = root / 'plan.cmake'
        if what == 'plan':
            args.append(f'--plan-file={planfile}')
            if scenario['root']:
                args.append(f'--root={root}')
        del writes[:]
        res = CliRunner().invoke(self.cli, args)
        out = {'exit': res.exit_code, 'exc': res.exception, 'writes': list(writes), 'root': root, 'src': src,
               'build': build, 'plan': None}
        if what == 'plan' and planfile.exists():
            text = planfile.read_text()
            out['plan'] = {m.group(1): m.group(2).split()
                           for m in re.finditer(r'set\(\s*(\w+)\s*\n(.*?)\n?\s*\)', text, re.S)}
        return out

    def execute(self, scenario, run):
        patches = Patches()
        writes = []
        orig = self.Sourcefile.to_file.__func__

        def rec(cls, source, path):
            writes.append(str(path))
            return orig(cls, source, path)
        patches.set(self.Sourcefile, 'to_file', classmethod(rec))
        patches.set(self.S, 'set', OrderedSetSeam(run, enabled=scenario['set_random']))
        patches.set(self.F, 'nx', NxProxy(run, enabled=scenario['topo_random']))
        if scenario['set_random']:
            run.probe('adversarial_set_order_runs')
        if scenario['topo_random']:
            run.probe('adversarial_topo_order_runs')
        try:
            plan = self._cli(scenario, run, run.scratch / 'p', 'plan', writes)
            conv = self._cli(scenario, run, run.scratch / 'c', 'convert', writes)
        finally:
            patches.undo()
        self._oracle(scenario, run, plan, conv)

    # -- oracle -----------------------------------------------------------------------
    @staticmethod
    def _dup_kernel_configured(scenario):
        """the duplicated kernel has its own config entry or is named in some ignore/block/disable list"""
        cfg = scenario['cfg']
        dk = set(scenario['dup_kernels'])
        if any(k.split('#')[-1] in dk for k in cfg['routines']):
            return True
        for rc in list(cfg['routines'].values()) + [cfg['default']]:
            for key in ('ignore', 'block', 'disable'):
                if any(x.split('#')[-1] in dk for x in rc.get(key, [])):
                    return True
        return False

    @staticmethod
    def _units_in_original(scenario, written_name):
        mode = scenario['mode'].replace('-', '_')
        m = re.match(rf'(.*)\.{re.escape(mode)}\.[^.]+$', written_name)
        if not m:
            return 0
        for f in scenario['proj']['files']:
            if Path(f['path']).stem.lower() == m.group(1).lower():
                return len(f['units'])
        return 0

    @staticmethod
    def _norm(paths, treeroot, build, rel_base=None):
        """path -> ('src'|'build', relative name), independent of which copy of the tree it lives in"""
        out = []
        for p in paths:
            p = Path(p)
            if not p.is_absolute():
                p = (rel_base or treeroot) / p
            p = p.resolve()
            try:
                out.append(('build', str(p.relative_to(build.resolve()))))
                continue
            except ValueError:
                pass
            try:
                out.append(('src', str(p.relative_to((treeroot / 'src').resolve()))))
            except ValueError:
                out.append(('other', str(p)))
        return sorted(out)

    def _oracle(self, scenario, run, plan, conv):
        pipe = PIPELINES[scenario['pipeline']]
        if 'Dependency' in pipe:
            run.probe('pipelines_with_rename')
        if 'Duplicate' in pipe:
            run.probe('pipelines_with_duplicate')
        if 'Remove' in pipe:
            run.probe('pipelines_with_remove')
        if scenario['build_outside']:
            run.probe('build_dir_outside_tree')
        if scenario['root']:
            run.probe('root_given')
        run.event('plan', plan['exit'], repr(plan['exc'])[:120])
        run.event('convert', conv['exit'], repr(conv['exc'])[:120])
        if plan['exit'] != 0 and conv['exit'] != 0:
            # the pipeline cannot process this project at all: outside what the statement describes
            run.probe('cli_failed_both')
            return
        if conv['exit'] != 0:
            # the conversion itself fails on this project/pipeline: nothing to compare the plan with
            run.probe('convert_failed')
            run.notes['convert_error'] = repr(conv['exc'])
            return
        if plan['exit'] != 0:
            sig = f'plan-failed:{type(plan["exc"]).__name__}:' + \
                ('pipeline-with-duplicate-kernel' if 'Duplicate' in pipe else 'other')
            run.violate('plan-failed', f'planning failed ({plan["exc"]!r}) for a project the conversion processes',
                        sig=sig)
            return
        if plan['writes']:
            run.violate('plan-wrote-sources', f'planning mode wrote {len(plan["writes"])} source files: '
                                              f'{[Path(w).name for w in plan["writes"]][:4]}')
        if plan['plan'] is None:
            run.violate('no-plan-file', 'plan run produced no plan file')
            return
        lists = {}
        for key in ('LOKI_SOURCES_TO_TRANSFORM', 'LOKI_SOURCES_TO_APPEND', 'LOKI_SOURCES_TO_REMOVE'):
            lists[key] = self._norm(plan['plan'].get(key, []), plan['root'], plan['build'], rel_base=plan['root'])
        written = self._norm(conv['writes'], conv['root'], conv['build'])
        run.event('lists', tuple(map(tuple, lists['LOKI_SOURCES_TO_APPEND'])),
                  tuple(map(tuple, lists['LOKI_SOURCES_TO_TRANSFORM'])),
                  tuple(map(tuple, lists['LOKI_SOURCES_TO_REMOVE'])), tuple(map(tuple, written)))
        run.probe('files_written', len(written))
        run.nontrivial = bool(written) and (run.stats['set_order_choice_points'] + run.stats['topo_choice_points'] > 0)
        if len(set(written)) != len(written):
            # the statement is about *which* files are written; a path written twice is only counted
            run.probe('path_written_twice')
        if sorted(set(lists['LOKI_SOURCES_TO_APPEND'])) != sorted(set(written)):
            a, w = set(lists['LOKI_SOURCES_TO_APPEND']), set(written)
            sig = None
            dsuf = scenario.get('dup_suffix', '_dupl').lower() + '.'
            if not (w - a) and 'Duplicate' in pipe and 'ModuleWrap' in pipe and \
                    all(dsuf in n.lower() for _, n in a - w):
                sig = 'append-differs:duplicated-free-kernel-then-modulewrap'
            elif not (w - a) and ('Dependency' in pipe or 'ModuleWrap' in pipe) and (a - w):
                sig = 'append-differs:rename-pipeline-plans-file-conversion-does-not-write'
            elif not (a - w) and ('Dependency' in pipe or 'ModuleWrap' in pipe) and (w - a):
                sig = 'append-differs:rename-pipeline-conversion-writes-unplanned-file'
            elif 'Duplicate' in pipe and not any(dsuf in n.lower() for _, n in (a ^ w)) and \
                    self._dup_kernel_configured(scenario):
                sig = 'append-differs:duplicated-kernel-has-item-config'
            if sig is None:
                # not one of the recognised shapes: identify the input by its layout/config features
                from sim.engines.itemhist import ItemHistoryEngine  # pylint: disable=import-outside-toplevel
                steps = ['DuplicateSub' if (x == 'Duplicate' and scenario.get('dup_subgraph')) else x for x in pipe]
                sig = f'append-differs:pipeline={scenario["pipeline"]}:features=' + ItemHistoryEngine.features(
                    {'proj': scenario['proj'], 'cfg': scenario['cfg'], 'steps': steps,
                     'dup_kernels': scenario['dup_kernels']})
            run.violate('append-differs', f'plan says append {sorted(a - w)[:4]} which the conversion did not write; '
                                          f'conversion wrote {sorted(w - a)[:4]} which the plan does not list', sig=sig)
            return
        if len(set(lists['LOKI_SOURCES_TO_APPEND'])) != len(lists['LOKI_SOURCES_TO_APPEND']):
            run.violate('append-duplicates', 'a file is listed twice in LOKI_SOURCES_TO_APPEND')
        # originals: every written file <stem>.<mode>.<ext> derives from the unique source file with that stem
        stems = {}
        hdr = None
        if scenario.get('header_file') is not None and scenario['proj']['files']:
            hdr = scenario['header_file'] % len(scenario['proj']['files'])
        relocated = {}
        for i, f in enumerate(scenario['proj']['files']):
            relocated[f['path']] = f'hdr/{Path(f["path"]).name}' if i == hdr else f['path']
            stems[Path(f['path']).stem.lower()] = relocated[f['path']]
        mode = scenario['mode'].replace('-', '_')
        originals = set()
        unknown = []
        for kind, name in set(written):
            m = re.match(rf'(.*)\.{re.escape(mode)}\.[^.]+$', name)
            if kind != 'build' or not m:
                unknown.append(name)
                continue
            o = stems.get(m.group(1).lower())
            if o is None:
                unknown.append(name)        # a generated file without original (duplicated kernels ...)
            else:
                originals.add(('src', o))
        if any(kind != 'build' for kind, _ in written):
            run.violate('written-outside-build', f'files written outside the build directory: '
                                                 f'{[n for k, n in written if k != "build"][:3]}')
        transform = set(lists['LOKI_SOURCES_TO_TRANSFORM'])
        remove = set(lists['LOKI_SOURCES_TO_REMOVE'])
        if not unknown:
            if transform != originals:
                run.violate('transform-differs', f'sources to transform {sorted(transform)} != originals of the '
                                                 f'written files {sorted(originals)}')
            # replaced rather than replicated: file-level replicate = any item in the file is replicate
            repl_files = set()
            cfg = scenario['cfg']
            for f in scenario['proj']['files']:
                for kind, name in f['units']:
                    ps = [name] if kind == 'free' else next(m for m in scenario['proj']['mods']
                                                            if m['name'] == name)['procs']
                    for p in ps:
                        if BG.item_config(cfg, BG.item_name(scenario['proj'], p)).get('replicate'):
                            repl_files.add(('src', relocated[f['path']]))
            if repl_files & originals:
                run.probe('replicated_files')
            clear_repl = set()
            for o in originals:
                if o not in repl_files:
                    clear_repl.add(o)
            if not clear_repl <= remove:
                run.violate('remove-missing', f'originals replaced by a written file but not listed for removal: '
                                              f'{sorted(clear_repl - remove)[:4]}')
            if not remove <= originals:
                run.violate('remove-foreign', f'listed for removal but no written file derives from it: '
                                              f'{sorted(remove - originals)[:4]}')
            if scenario['pipeline'] == 'idem':
                # no item is created, removed or renamed: the file-level replicate flag follows from the
                # reference graph (a file is replicated iff one of its graph items is configured so)
                # the CLI seeds the graph with every routine whose config entry has the driver role
                gdis = cfg['default'].get('disable', [])
                seeds = list(cfg['seeds']) + [k for k, v in cfg['routines'].items() if v.get('role') == 'driver' and
                                              k.split('#')[-1] not in [x.split('#')[-1] for x in cfg['seeds']] and
                                              not BG.matches_with_parents(k, gdis) and
                                              not any(BG.matches_with_parents(BG.item_name(scenario['proj'], q), gdis)
                                                      for q in scenario['proj']['procs']
                                                      if BG.matches(BG.item_name(scenario['proj'], q), [k]))]
                ref = BG.reference_graph(scenario['proj'], dict(cfg, seeds=seeds))
                file_of = {}
                for f in scenario['proj']['files']:
                    for kind, name in f['units']:
                        if kind == 'free':
                            file_of[f'#{name}'] = relocated[f['path']]
                        else:
                            m = next(m for m in scenario['proj']['mods'] if m['name'] == name)
                            for pn in m['procs'] + (m['iface']['procs'] if m.get('iface') else []):
                                file_of[BG.item_name(scenario['proj'], pn)] = relocated[f['path']]
                exact_repl = {('src', file_of[n]) for n, k in ref['nodes'].items()
                              if k == 'proc' and n in file_of and BG.item_config(cfg, n).get('replicate')
                              and ref['ignored'].get(n) is False}
                wrongly = remove & exact_repl
                if wrongly:
                    run.violate('replicated-removed', f'originals of replicated files listed for removal: '
                                                      f'{sorted(wrongly)[:4]}')
        else:
            if not remove <= transform:
                run.violate('remove-foreign', f'listed for removal but not listed as transformed: '
                                              f'{sorted(remove - transform)[:4]}')
        _ = HarnessError
