"""
poolsim: a deterministic stand-in for ``concurrent.futures.ProcessPoolExecutor``
and ``multiprocessing.Manager`` with virtual time.

* Every task body runs in a *real* thread, but exactly one of {main thread,
  task threads} holds the baton at any time.  A thread gives the baton back at
  every pre-emption point (``Sim.pause`` / ``Sim.wait``): task start, task end,
  every manager-proxy request, every stubbed external effect, every main-thread
  ``submit`` and every blocking call of the main thread.
* Who runs next is ``choose('sched', runnable)`` -- the simulator's decision,
  never the OS scheduler's.  Runs therefore replay exactly.
* Time is virtual.  ``now`` only advances when nothing is runnable; a
  ``result(timeout=60)`` deadline costs microseconds.
* The process boundary is a pickle transport: arguments are pickled at submit
  time, results/exceptions are pickled on the way back, manager objects pickle
  by reference and store/return by value.
"""
import pickle
import threading

from sim.kernel import HarnessError


class SimDeadlock(BaseException):
    """Main thread blocked for ever: nothing runnable, no timer pending."""


class SimStepCap(BaseException):
    """Step budget of the run exhausted (harness-level, not a violation)."""


class _Kill(BaseException):
    """Unwinds parked task threads at the end of a run."""


try:
    from concurrent.futures.process import BrokenProcessPool as _BPP
except Exception:  # pylint: disable=broad-except
    _BPP = Exception


class SimBrokenPool(_BPP):
    """What the futures of a pool report after one of its worker processes died."""


class _TaskDeath(BaseException):
    """Unwinds the task thread of a worker process that dies (fault injection)."""


class _Carrier:
    """
    A persistent OS thread that carries one task body at a time.  Creating a
    thread per task costs milliseconds in this sandbox; carriers are reused
    across tasks and runs.  Which carrier carries which task is invisible to
    the simulation (the baton decides who runs).
    """

    def __init__(self):
        self.sem = threading.Semaphore(0)
        self.job = None
        self.thread = threading.Thread(target=self._loop, daemon=True)
        self.thread.start()

    def _loop(self):
        while True:
            self.sem.acquire()
            job, self.job = self.job, None
            try:
                job()
            finally:
                _IDLE.append(self)

    def carry(self, job):
        self.job = job
        self.sem.release()


_IDLE = []


def _carrier():
    return _IDLE.pop() if _IDLE else _Carrier()


class Actor:
    def __init__(self, name):
        self.name = name
        self.sem = threading.Semaphore(0)
        self.wake_at = 0.0
        self.cond = None
        self.deadline = None
        self.pending_exc = None
        self.thread = None
        self.exited = None
        self.ctx = None           # None = main process; else (executor id, worker slot)

    def ready(self, now):
        if self.cond is not None:
            return self.cond() or (self.deadline is not None and now >= self.deadline)
        return self.wake_at <= now

    def next_time(self):
        if self.cond is not None:
            return self.deadline
        return self.wake_at


class Sim:
    """The scheduler.  One instance per run; ``pool.CURRENT`` points at it."""

    def __init__(self, run, max_steps=20000, dispatch_latencies=(0.0,), submit_delays=(0.0,),
                 op_delays=(0.0,)):
        self.run = run
        self.ch = run.sched
        self.now = 0.0
        self.steps = 0
        self.max_steps = max_steps
        self.main = Actor('main')
        self.current = self.main
        self.actors = [self.main]
        self.registry = {}            # manager-side objects
        self.executors = []
        self.dispatch_latencies = dispatch_latencies
        self.submit_delays = submit_delays
        self.op_delays = op_delays
        self.aborted = None
        self.killing = False
        self.ntasks = 0
        self.max_concurrent = 0
        self.trace_hook = None
        # process-global state model (see ProcessGlobals)
        self.pglobals = None
        self.live_ctx = 'main'
        self.saved_ctx = {}
        # worker-death fault: (task id, number of manager requests / effects after which it dies)
        self.die = None
        self.ops_by_task = {}

    # -- time ---------------------------------------------------------------
    def perf_counter(self):
        return self.now

    # -- baton passing ------------------------------------------------------
    def pause(self, delay=0.0):
        """Pre-emption point of the current actor; runnable again at now+delay."""
        me = self.current
        me.cond = None
        me.deadline = None
        me.wake_at = self.now + delay
        self._switch(me)

    def wait(self, cond, timeout=None):
        """
        Block the current actor until ``cond()`` holds or ``timeout`` virtual
        seconds have passed.  Returns the final value of ``cond()``.
        """
        me = self.current
        me.cond = cond
        me.deadline = None if timeout is None else self.now + timeout
        try:
            self._switch(me)
        finally:
            me.cond = None
            me.deadline = None
            me.wake_at = self.now
        return bool(cond())

    # -- process-global state ------------------------------------------------
    def use_process_globals(self, pglobals):
        self.pglobals = pglobals

    def _enter_ctx(self, actor):
        """Install the process-global state of the process ``actor`` runs in."""
        if self.pglobals is None:
            return
        ctx = getattr(actor, 'ctx', None) or 'main'
        if ctx == self.live_ctx:
            return
        self.saved_ctx[self.live_ctx] = self.pglobals.snapshot()
        self.pglobals.install(self.saved_ctx[ctx])
        self.live_ctx = ctx

    def main_state(self):
        if self.pglobals is None:
            return None
        if self.live_ctx == 'main':
            return self.pglobals.snapshot()
        return self.pglobals.copy(self.saved_ctx['main'])

    def _pick(self):
        while True:
            runnable = [a for a in self.actors if a.ready(self.now)]
            if runnable:
                if len(runnable) > 1:
                    self.run.nontrivial = True
                    self.run.stats['sched_choice_points'] += 1
                return runnable[self.ch.choose('sched', len(runnable))]
            times = [t for t in (a.next_time() for a in self.actors) if t is not None]
            if not times:
                return None
            self.now = max(self.now, min(times))

    def _switch(self, me):
        if self.killing and me is not self.main:
            raise _Kill()
        self.steps += 1
        if self.steps > self.max_steps and self.aborted is None:
            self.aborted = SimStepCap(f'more than {self.max_steps} scheduling steps')
        if self.aborted is not None:
            nxt = self.main
            if self.main.pending_exc is None and not isinstance(self.aborted, _Kill):
                self.main.pending_exc = self.aborted
        else:
            nxt = self._pick()
            if nxt is None:
                self.aborted = SimDeadlock(f'deadlock at t={self.now}: main blocked, nothing runnable')
                self.main.pending_exc = self.aborted
                nxt = self.main
        if nxt is not me:
            self._enter_ctx(nxt)
            self.current = nxt
            nxt.sem.release()
            me.sem.acquire()
        if me.pending_exc is not None:
            exc, me.pending_exc = me.pending_exc, None
            raise exc

    def _handoff_from_finished(self):
        """Called by a task thread that is about to exit."""
        if self.aborted is not None:
            nxt = self.main
        else:
            nxt = self._pick()
            if nxt is None:
                self.aborted = SimDeadlock(f'deadlock at t={self.now}')
                self.main.pending_exc = self.aborted
                nxt = self.main
        self._enter_ctx(nxt)
        self.current = nxt
        nxt.sem.release()

    # -- end of run -----------------------------------------------------------
    def shutdown(self):
        """Unwind every parked task thread.  Must be called from main."""
        self.aborted = self.aborted or _Kill()
        self.killing = True
        self._enter_ctx(self.main)
        for a in list(self.actors):
            if a is self.main or a.thread is None:
                continue
            a.pending_exc = _Kill()
            self.current = a
            a.sem.release()
            if not a.exited.acquire(timeout=20):
                raise HarnessError(f'task thread {a.name} did not unwind')
        self.actors = [self.main]
        self.current = self.main
        self.run.sim_time += self.now
        self.run.steps += self.steps
        self.run.stats['tasks'] += self.ntasks
        self.run.stats['max_concurrent_tasks'] = max(self.run.stats['max_concurrent_tasks'],
                                                     self.max_concurrent)

    # -- manager-side request -------------------------------------------------
    def maybe_die(self):
        """Fault injection: the worker process of the current task dies right here."""
        me = self.current
        if self.die is None or me is self.main:
            return
        n = self.ops_by_task.get(me.name, 0)
        self.ops_by_task[me.name] = n + 1
        if me.name == f't{self.die[0]}' and n == self.die[1]:
            self.die = None
            self.run.probe('fault_worker_death')
            self.run.event('worker-death', me.name, n)
            for ex in self.executors:
                ex._break(me)
            raise _TaskDeath()

    def proxy_op(self, oid, op):
        """Every manager request is a pre-emption point, then atomic."""
        self.maybe_die()
        who = self.current.name
        d = self.op_delays[self.ch.choose('opdelay', len(self.op_delays))] \
            if len(self.op_delays) > 1 else self.op_delays[0]
        self.pause(d)
        self.run.event('op', who, oid, op)


CURRENT = None


def current():
    if CURRENT is None:
        raise HarnessError('no simulation active')
    return CURRENT


def install(sim):
    global CURRENT  # pylint: disable=global-statement
    CURRENT = sim


def uninstall():
    global CURRENT  # pylint: disable=global-statement
    CURRENT = None


def _roundtrip(obj):
    return pickle.loads(pickle.dumps(obj))


class SimFuture:
    def __init__(self, executor, payload, tid):
        self.ex = executor
        self.sim = executor.sim
        self.payload = payload
        self.tid = tid
        self.state = 'queued'
        self._res = None
        self._exc = None
        self.actor = None
        self.t_start = None
        self.t_end = None

    def __repr__(self):
        return f'<SimFuture {self.tid} {self.state}>'

    def done(self):
        return self.state == 'done'

    def running(self):
        return self.state == 'running'

    def cancelled(self):
        return False

    def result(self, timeout=None):
        if not self.done():
            self.sim.run.probe('wait_hit_unfinished_task')
        if not self.sim.wait(self.done, timeout):
            self.sim.run.probe('timeout_fired')
            raise TimeoutError()
        if self._exc is not None:
            raise self._exc
        return self._res

    def exception(self, timeout=None):
        if not self.sim.wait(self.done, timeout):
            self.sim.run.probe('timeout_fired')
            raise TimeoutError()
        return self._exc

    # -- task thread ----------------------------------------------------------
    def _body(self):
        try:
            self._body2()
        finally:
            self.actor.exited.release()

    def _body2(self):
        me = self.actor
        me.sem.acquire()
        sim = self.sim
        try:
            if me.pending_exc is not None:
                exc, me.pending_exc = me.pending_exc, None
                raise exc
            sim.run.event('start', self.tid)
            sim.maybe_die()
            self.t_start = sim.now
            fn, args, kwargs = pickle.loads(self.payload)
            if sim.trace_hook is not None:
                import sys  # pylint: disable=import-outside-toplevel
                sys.settrace(sim.trace_hook)
            try:
                res = fn(*args, **kwargs)
            finally:
                if sim.trace_hook is not None:
                    import sys  # pylint: disable=import-outside-toplevel
                    sys.settrace(None)
            self._res = _roundtrip(res)
        except _Kill:
            return
        except (SimDeadlock, SimStepCap):
            return
        except _TaskDeath:
            self._exc = SimBrokenPool('A process in the process pool was terminated abruptly while the future was '
                                      'running or pending.')
        except BaseException as e:  # pylint: disable=broad-except
            try:
                self._exc = _roundtrip(e)
            except Exception as pe:  # pylint: disable=broad-except
                self._exc = RuntimeError(f'unpicklable exception {type(e).__name__}: {e} ({pe})')
        # completion is itself a scheduling point: give others a chance first
        try:
            sim.pause(0.0)
        except (_Kill, SimDeadlock, SimStepCap):
            return
        except _TaskDeath:
            self._res = None
            self._exc = SimBrokenPool('A process in the process pool was terminated abruptly while the future was '
                                      'running or pending.')
        self.state = 'done'
        self.t_end = sim.now
        sim.run.event('end', self.tid, 'exc' if self._exc is not None else 'ok')
        self.ex._finished(self)
        sim.actors.remove(me)
        sim._handoff_from_finished()


class SimExecutor:
    """Drop-in for ProcessPoolExecutor (the subset Loki uses)."""

    def __init__(self, max_workers=None, mp_context=None, **kwargs):  # pylint: disable=unused-argument
        self.sim = current()
        self.n = max_workers or 4
        method = None
        if mp_context is not None:
            method = mp_context if isinstance(mp_context, str) else \
                getattr(mp_context, 'get_start_method', lambda: None)() or getattr(mp_context, '_name', None)
        if method is None:
            import multiprocessing  # pylint: disable=import-outside-toplevel
            method = multiprocessing.get_start_method(allow_none=True) or 'fork'
        self.start_method = method
        self.eid = len(self.sim.executors)
        self.slots = {}               # slot index -> running future or None
        self.fork_state = None
        self.queue = []
        self.running = []
        self.done_order = []
        self.futures = []
        self.broken = False
        self.sim.executors.append(self)

    def __enter__(self):
        return self

    def __exit__(self, *exc):
        self.shutdown(wait=True)
        return False

    def submit(self, fn, /, *args, **kwargs):
        sim = self.sim
        if self.broken:
            raise SimBrokenPool('pool is broken')
        fut = SimFuture(self, None, sim.ntasks)
        sim.ntasks += 1
        self.futures.append(fut)
        try:
            fut.payload = pickle.dumps((fn, args, kwargs))
        except Exception as e:  # pylint: disable=broad-except
            # like the real pool: the work item fails, submit itself succeeds
            fut.state = 'done'
            fut._exc = e
            self.done_order.append(fut)
            return fut
        sim.run.event('submit', fut.tid)
        if self.fork_state is None and sim.pglobals is not None:
            # fork: all workers are launched at the first submit and inherit the parent's state then
            self.fork_state = sim.main_state()
        self.queue.append(fut)
        self._dispatch()
        # the submitting thread is pre-emptible here: workers may make progress
        d = sim.submit_delays[sim.ch.choose('submitdelay', len(sim.submit_delays))] \
            if len(sim.submit_delays) > 1 else sim.submit_delays[0]
        sim.pause(d)
        return fut

    def _dispatch(self):
        sim = self.sim
        while self.queue and len(self.running) < self.n:
            fut = self.queue.pop(0)          # FIFO call queue
            fut.state = 'running'
            self.running.append(fut)
            sim.max_concurrent = max(sim.max_concurrent, sum(len(e.running) for e in sim.executors))
            a = Actor(f't{fut.tid}')
            slot = next(i for i in range(self.n) if self.slots.get(i) is None)
            self.slots[slot] = fut
            fut.slot = slot
            a.ctx = (self.eid, slot)
            if sim.pglobals is not None and a.ctx not in sim.saved_ctx:
                # a new worker process: fork inherits the parent's globals, spawn/forkserver re-import
                sim.saved_ctx[a.ctx] = sim.pglobals.copy(self.fork_state) if self.start_method == 'fork' \
                    else sim.pglobals.spawn_state()
                if self.start_method != 'fork':
                    sim.run.probe('spawned_workers')
            lat = sim.dispatch_latencies[sim.ch.choose('latency', len(sim.dispatch_latencies))] \
                if len(sim.dispatch_latencies) > 1 else sim.dispatch_latencies[0]
            a.wake_at = sim.now + lat
            fut.actor = a
            a.exited = threading.Semaphore(0)
            a.thread = _carrier()
            sim.actors.append(a)
            a.thread.carry(fut._body)

    def _break(self, dying_actor):
        """A worker died: the real pool marks itself broken, fails every queued future and terminates the
        remaining workers (their effects so far persist)."""
        self.broken = True
        for fut in self.queue:
            fut.state = 'done'
            fut._exc = SimBrokenPool('A process in the process pool was terminated abruptly while the future was '
                                     'running or pending.')
            self.done_order.append(fut)
        self.queue = []
        for fut in self.running:
            if fut.actor is not dying_actor and fut.actor is not None:
                fut.actor.pending_exc = _TaskDeath()

    def _finished(self, fut):
        self.slots[fut.slot] = None
        self.running.remove(fut)
        self.done_order.append(fut)
        self._dispatch()

    def shutdown(self, wait=True, cancel_futures=False):  # pylint: disable=unused-argument
        if wait:
            self.sim.wait(lambda: not self.queue and not self.running)


def sim_as_completed(fs, timeout=None):
    """Yield futures in *simulated* completion order."""
    fs = list(fs)
    if not fs:
        return
    pending = set(id(f) for f in fs)
    ex = fs[0].ex
    sim = ex.sim
    seen = 0
    while pending:
        if not sim.wait(lambda: len(ex.done_order) > seen, timeout):
            raise TimeoutError()
        while seen < len(ex.done_order):
            f = ex.done_order[seen]
            seen += 1
            if id(f) in pending:
                pending.discard(id(f))
                yield f


# ---------------------------------------------------------------------------
# Manager and proxies
# ---------------------------------------------------------------------------

class _Proxy:
    def __init__(self, oid):
        self._oid = oid

    def __reduce__(self):
        return (type(self), (self._oid,))

    @property
    def _obj(self):
        return current().registry[self._oid]

    def _op(self, name):
        current().proxy_op(self._oid, name)


def _store(v):
    """by-value storage (proxies pickle by reference, so nesting works)"""
    return pickle.dumps(v)


def _load(b):
    return pickle.loads(b)


class SimListProxy(_Proxy):
    """
    Mirrors multiprocessing's ListProxy: no ``__iter__`` (iteration goes through
    ``__getitem__`` one request at a time), values by value.
    """

    def append(self, x):
        self._op('append')
        self._obj.append(_store(x))

    def extend(self, xs):
        self._op('extend')
        self._obj.extend(_store(x) for x in xs)

    def insert(self, i, x):
        self._op('insert')
        self._obj.insert(i, _store(x))

    def pop(self, i=-1):
        self._op('pop')
        return _load(self._obj.pop(i))

    def __len__(self):
        self._op('len')
        return len(self._obj)

    def __getitem__(self, i):
        self._op('getitem')
        r = self._obj[i]
        if isinstance(i, slice):
            return [_load(b) for b in r]
        return _load(r)

    def __setitem__(self, i, v):
        self._op('setitem')
        self._obj[i] = _store(v)

    def __delitem__(self, i):
        self._op('delitem')
        del self._obj[i]

    def __contains__(self, x):
        self._op('contains')
        return any(_load(b) == x for b in self._obj)

    def __add__(self, other):
        self._op('add')
        return [_load(b) for b in self._obj] + list(other)

    def count(self, x):
        self._op('count')
        return sum(1 for b in self._obj if _load(b) == x)

    def index(self, x):
        self._op('index')
        return [_load(b) for b in self._obj].index(x)

    def _getvalue(self):
        self._op('getvalue')
        return [_load(b) for b in self._obj]

    def __repr__(self):
        return f'<SimListProxy {self._oid}>'


class SimDictProxy(_Proxy):
    """
    Mirrors DictProxy.  Keys live manager-side as the objects unpickled on
    arrival; every look-up unpickles the incoming key and relies on that
    object's own ``__hash__``/``__eq__``.
    """

    def __setitem__(self, k, v):
        self._op('setitem')
        self._obj[_roundtrip(k)] = _store(v)

    def __getitem__(self, k):
        self._op('getitem')
        return _load(self._obj[_roundtrip(k)])

    def __delitem__(self, k):
        self._op('delitem')
        del self._obj[_roundtrip(k)]

    def __contains__(self, k):
        self._op('contains')
        return _roundtrip(k) in self._obj

    def __len__(self):
        self._op('len')
        return len(self._obj)

    def __iter__(self):
        self._op('iter')
        return iter([_roundtrip(k) for k in self._obj])

    def get(self, k, default=None):
        self._op('get')
        kk = _roundtrip(k)
        return _load(self._obj[kk]) if kk in self._obj else default

    def setdefault(self, k, default=None):
        self._op('setdefault')
        kk = _roundtrip(k)
        if kk not in self._obj:
            self._obj[kk] = _store(default)
        return _load(self._obj[kk])

    def pop(self, k, *default):
        self._op('pop')
        kk = _roundtrip(k)
        if kk in self._obj:
            return _load(self._obj.pop(kk))
        if default:
            return default[0]
        raise KeyError(k)

    def update(self, *a, **kw):
        self._op('update')
        for k, v in dict(*a, **kw).items():
            self._obj[_roundtrip(k)] = _store(v)

    def clear(self):
        self._op('clear')
        self._obj.clear()

    def keys(self):
        self._op('keys')
        return [_roundtrip(k) for k in self._obj]

    def values(self):
        self._op('values')
        return [_load(v) for v in self._obj.values()]

    def items(self):
        self._op('items')
        return [(_roundtrip(k), _load(v)) for k, v in self._obj.items()]

    def copy(self):
        self._op('copy')
        return {_roundtrip(k): _load(v) for k, v in self._obj.items()}

    def __repr__(self):
        return f'<SimDictProxy {self._oid}>'


class SimQueueProxy(_Proxy):
    def put(self, x, *a, **kw):  # pylint: disable=unused-argument
        self._obj.append(_store(x))

    def put_nowait(self, x):
        self._obj.append(_store(x))

    def get(self, *a, **kw):  # pylint: disable=unused-argument
        return _load(self._obj.pop(0))

    def empty(self):
        return not self._obj


class ProcessGlobals:
    """
    Model of per-process global state.  The baton threads share one address
    space, real worker processes do not: each cell names a process-global
    mutable object; the simulator swaps its content whenever the baton moves
    between processes (main <-> worker slot), so a worker sees what a forked
    (state at first submit) or spawned (import-time state) process would see,
    and what it mutates stays in that worker.

    cells: list of (name, get_state, set_state); states must be independent copies.
    """

    def __init__(self, cells, spawn):
        self.cells = cells
        self._spawn = spawn

    def snapshot(self):
        return [get() for _, get, _ in self.cells]

    def install(self, states):
        for (_, _, setter), st in zip(self.cells, states):
            setter(st)

    def copy(self, states):
        import copy as _copy  # pylint: disable=import-outside-toplevel
        return _copy.deepcopy(states)

    def spawn_state(self):
        return self.copy(self._spawn)


class SimValueProxy(_Proxy):
    def get(self):
        self._op('value.get')
        return _load(self._obj[0])

    def set(self, v):
        self._op('value.set')
        self._obj[0] = _store(v)

    value = property(get, set)


class SimNamespaceProxy(_Proxy):
    def __getattr__(self, k):
        if k.startswith('_'):
            raise AttributeError(k)
        self._op('ns.get')
        try:
            return _load(self._obj[k])
        except KeyError:
            raise AttributeError(k) from None

    def __setattr__(self, k, v):
        if k.startswith('_'):
            object.__setattr__(self, k, v)
            return
        self._op('ns.set')
        self._obj[k] = _store(v)


class SimLockProxy(_Proxy):
    """Lock / RLock: blocking acquire is a simulator wait, never a real one."""

    def acquire(self, blocking=True, timeout=None):
        sim = current()
        self._op('lock.acquire')
        st = self._obj
        me = sim.current.name
        if st['rlock'] and st['owner'] == me:
            st['count'] += 1
            return True
        if not blocking:
            if st['owner'] is not None:
                return False
        elif not sim.wait(lambda: st['owner'] is None, None if timeout in (None, -1) else timeout):
            return False
        st['owner'] = me
        st['count'] = 1
        return True

    def release(self):
        self._op('lock.release')
        st = self._obj
        st['count'] -= 1
        if st['count'] <= 0:
            st['owner'] = None
            st['count'] = 0

    def __enter__(self):
        self.acquire()
        return self

    def __exit__(self, *a):
        self.release()
        return False


class SimEventProxy(_Proxy):
    def set(self):
        self._op('event.set')
        self._obj[0] = True

    def clear(self):
        self._op('event.clear')
        self._obj[0] = False

    def is_set(self):
        self._op('event.is_set')
        return self._obj[0]

    def wait(self, timeout=None):
        self._op('event.wait')
        return current().wait(lambda: self._obj[0], timeout)


class SimManager:
    """Drop-in for multiprocessing.Manager() (dict / list / Queue / Value / Lock / ...)."""

    def __init__(self, *a, **kw):  # pylint: disable=unused-argument
        self.sim = current()

    def _new(self, cls, init):
        oid = len(self.sim.registry)
        self.sim.registry[oid] = init
        return cls(oid)

    def dict(self, *a, **kw):
        p = self._new(SimDictProxy, {})
        for k, v in dict(*a, **kw).items():
            p._obj[_roundtrip(k)] = _store(v)
        return p

    def list(self, it=()):
        p = self._new(SimListProxy, [])
        for x in it:
            p._obj.append(_store(x))
        return p

    def Queue(self, *a, **kw):  # pylint: disable=unused-argument
        return self._new(SimQueueProxy, [])

    JoinableQueue = Queue

    def Value(self, typecode, value, *a, **kw):  # pylint: disable=unused-argument,invalid-name
        return self._new(SimValueProxy, [_store(value)])

    def Namespace(self):  # pylint: disable=invalid-name
        return self._new(SimNamespaceProxy, {})

    def Lock(self):  # pylint: disable=invalid-name
        return self._new(SimLockProxy, {'owner': None, 'count': 0, 'rlock': False})

    def RLock(self):  # pylint: disable=invalid-name
        return self._new(SimLockProxy, {'owner': None, 'count': 0, 'rlock': True})

    def Event(self):  # pylint: disable=invalid-name
        return self._new(SimEventProxy, [False])

    def Array(self, typecode, seq):  # pylint: disable=unused-argument,invalid-name
        return self.list(seq)

    def shutdown(self):
        pass

    def __enter__(self):
        return self

    def __exit__(self, *a):
        return False


class NoListener:
    """QueueListener stand-in: the log funnel is not part of any property."""

    def __init__(self, *a, **kw):
        pass

    def start(self):
        pass

    def stop(self):
        pass


# ---------------------------------------------------------------------------
# Global dispatching seams
# ---------------------------------------------------------------------------
# Installed once per interpreter *before* Loki is imported, so that any
# ``from concurrent.futures import ...`` / ``from multiprocessing import Manager``
# anywhere in the tree under test binds to a dispatcher: with a simulation
# active the simulated object is used, otherwise the real one.  This keeps the
# harness sound under refactorings that move imports around or use
# ``concurrent.futures.wait`` on the futures.

_GLOBAL_INSTALLED = False


def sim_wait(fs, timeout=None, return_when='ALL_COMPLETED'):
    import concurrent.futures as cf  # pylint: disable=import-outside-toplevel
    fs = list(fs)
    sim = current()

    def cond():
        done = [f for f in fs if f.done()]
        if return_when == cf.FIRST_COMPLETED:
            return bool(done)
        if return_when == cf.FIRST_EXCEPTION:
            return any(f._exc is not None for f in done) or len(done) == len(fs)
        return len(done) == len(fs)

    sim.wait(cond, timeout)
    done = {f for f in fs if f.done()}
    return cf._base.DoneAndNotDoneFutures(done, set(fs) - done)


def install_global_seams():
    global _GLOBAL_INSTALLED  # pylint: disable=global-statement
    if _GLOBAL_INSTALLED:
        return
    _GLOBAL_INSTALLED = True
    import concurrent.futures as cf  # pylint: disable=import-outside-toplevel
    import concurrent.futures.process as cfp  # pylint: disable=import-outside-toplevel
    import multiprocessing as mp  # pylint: disable=import-outside-toplevel
    import logging.handlers as lh  # pylint: disable=import-outside-toplevel

    real_ppe = cfp.ProcessPoolExecutor
    real_wait = cf.wait
    real_asc = cf.as_completed
    real_manager = mp.Manager
    real_listener = lh.QueueListener

    class ProcessPoolExecutorSeam(real_ppe):
        def __new__(cls, *a, **kw):
            if CURRENT is not None:
                return SimExecutor(*a, **kw)
            return object.__new__(cls)

    ProcessPoolExecutorSeam.__name__ = 'ProcessPoolExecutor'
    ProcessPoolExecutorSeam.__qualname__ = 'ProcessPoolExecutor'

    def wait(fs, timeout=None, return_when=cf.ALL_COMPLETED):
        fs = list(fs)
        if fs and all(isinstance(f, SimFuture) for f in fs):
            return sim_wait(fs, timeout, return_when)
        return real_wait(fs, timeout, return_when)

    def as_completed(fs, timeout=None):
        fs = list(fs)
        if fs and all(isinstance(f, SimFuture) for f in fs):
            return sim_as_completed(fs, timeout)
        return real_asc(fs, timeout)

    def Manager(*a, **kw):  # pylint: disable=invalid-name
        if CURRENT is not None:
            return SimManager()
        return real_manager(*a, **kw)

    class QueueListenerSeam(real_listener):
        def __new__(cls, *a, **kw):
            if CURRENT is not None:
                return NoListener()
            return object.__new__(cls)

    QueueListenerSeam.__name__ = 'QueueListener'
    QueueListenerSeam.__qualname__ = 'QueueListener'

    cf.ProcessPoolExecutor = ProcessPoolExecutorSeam
    cfp.ProcessPoolExecutor = ProcessPoolExecutorSeam
    cf.wait = wait
    cf._base.wait = wait
    cf.as_completed = as_completed
    cf._base.as_completed = as_completed
    mp.Manager = Manager
    lh.QueueListener = QueueListenerSeam
