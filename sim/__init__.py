"""Deterministic simulation with fault injection for ecmwf-ifs/loki (see /verif/DESIGN.md)."""
