"""
Simulation kernel: one integer decides everything.

* ``H(*parts)``      -- stable 64-bit hash used to derive run seeds / hash seeds
* ``Choices``        -- the only source of randomness of a run; logs every draw,
                        can be answered from a recorded list (replay)
* ``Run``            -- per-run context: event log (+digest), counters, probes,
                        violations, scratch directory
* ``Violation``      -- a property violation found by an oracle
* ``HarnessError``   -- anything that is the harness' fault (never a VIOLATION)

Nothing here reads a clock or the process' PRNG; logging never draws.
"""
import hashlib
import os
import random
import shutil
from collections import Counter
from pathlib import Path


def H(*parts):
    """Stable (hash-seed independent) 64-bit hash of the repr of ``parts``."""
    h = hashlib.sha256(repr(parts).encode()).digest()
    return int.from_bytes(h[:8], 'big')


class HarnessError(Exception):
    """Raised when the harness itself is at fault (exit code 2, no VIOLATION)."""


class SimFault(Exception):
    """The exception type the simulator injects as a 'body raises' fault."""


class Choices:
    """
    ``choose(tag, n) -> k in [0, n)``; every draw with n > 1 is logged as
    ``[tag, n, k]``.  In replay mode the draws are answered from ``replay``
    (a list of such triples); a tag/arity mismatch or an exhausted list
    answers 0, so hand-edited or minimised traces stay deterministic.
    """

    def __init__(self, seed=None, replay=None):
        self.seed = seed
        self.rng = random.Random(seed) if replay is None else None
        self.replay = replay
        self.pos = 0
        self.log = []

    def choose(self, tag, n):
        if n <= 0:
            raise HarnessError(f'choose({tag!r}, {n})')
        if n == 1:
            return 0
        if self.replay is not None:
            k = 0
            if self.pos < len(self.replay):
                t, _, rk = self.replay[self.pos]
                self.pos += 1
                if t == tag and 0 <= rk < n:
                    k = rk
        else:
            k = self.rng.randrange(n)
        self.log.append([tag, n, k])
        return k

    # -- helpers, all built on choose -------------------------------------
    def pick(self, tag, seq):
        seq = list(seq)
        return seq[self.choose(tag, len(seq))]

    def flip(self, tag, num=1, den=2):
        """True with probability num/den."""
        return self.choose(tag, den) < num

    def randint(self, tag, lo, hi):
        return lo + self.choose(tag, hi - lo + 1)

    def shuffled(self, tag, seq):
        seq = list(seq)
        out = []
        while seq:
            out.append(seq.pop(self.choose(tag, len(seq))))
        return out

    def sample(self, tag, seq, k):
        return self.shuffled(tag, seq)[:k]

    def subset(self, tag, seq, num=1, den=2):
        return [x for x in seq if self.flip(tag, num, den)]

    def weighted(self, tag, pairs):
        """pairs: [(value, integer weight)]"""
        total = sum(w for _, w in pairs)
        k = self.choose(tag, total)
        for v, w in pairs:
            if k < w:
                return v
            k -= w
        raise HarnessError('weighted')


class Violation:
    """
    cls   -- violation class, stable across minimisation (e.g. ``dep-order``)
    sig   -- signature used for known-findings matching: class plus the
             identifying input / call site / history feature
    detail-- human readable
    """

    def __init__(self, prop, cls, detail, sig=None):
        self.prop = prop
        self.cls = cls
        self.detail = detail
        self.sig = sig or cls

    def to_json(self):
        return {'property': self.prop, 'class': self.cls, 'sig': self.sig, 'detail': self.detail}

    def __repr__(self):
        return f'Violation({self.prop}, {self.cls}, {self.detail!r})'


def scratch_base():
    base = os.environ.get('VERIF_SCRATCH')
    if not base:
        shm = Path('/dev/shm')
        base = str(shm / 'lokisim') if shm.is_dir() and os.access(shm, os.W_OK) else '/tmp/lokisim'
    return Path(base)


class Run:
    """Context of one simulated run."""

    def __init__(self, prop, run_seed, sched, scenario):
        self.prop = prop
        self.run_seed = run_seed
        self.sched = sched            # Choices for schedule + faults
        self.scenario = scenario
        self.events = []              # the recorded history
        self.stats = Counter()        # fault / probe counters
        self.violations = []
        self.nontrivial = False
        self.sim_time = 0.0
        self.steps = 0
        self._scratch = None
        self.notes = {}

    # -- history -----------------------------------------------------------
    def event(self, *ev):
        self.events.append(ev)
        return len(self.events) - 1

    def digest(self):
        return hashlib.sha1(repr(self.events).encode()).hexdigest()[:16]

    def probe(self, name, n=1):
        self.stats[name] += n

    def violate(self, cls, detail, sig=None):
        v = Violation(self.prop, cls, detail, sig)
        self.violations.append(v)
        return v

    # -- scratch -----------------------------------------------------------
    @property
    def scratch(self):
        if self._scratch is None:
            d = scratch_base() / f'{self.prop}-{self.run_seed:016x}'
            shutil.rmtree(d, ignore_errors=True)
            d.mkdir(parents=True)
            self._scratch = d
        return self._scratch

    def cleanup(self):
        if self._scratch is not None:
            shutil.rmtree(self._scratch, ignore_errors=True)
            self._scratch = None

    def result(self):
        return {
            'digest': self.digest(),
            'violations': [v.to_json() for v in self.violations],
            'stats': dict(self.stats),
            'nontrivial': bool(self.nontrivial),
            'sim_time': self.sim_time,
            'steps': self.steps,
            'n_events': len(self.events),
            'n_choices': len(self.sched.log),
        }
