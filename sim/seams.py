"""
Environment-order seams: legal-but-adversarial behaviours of things whose
order the code under test does not fix (DESIGN 4.6).
"""
import networkx as _nx


class NxProxy:
    """
    Looks like the ``networkx`` module to the code under test, but
    ``topological_sort`` is Kahn's algorithm with the next ready node picked
    by the run's ``Choices`` -- some valid topological order, which is all
    networkx promises.
    """

    def __init__(self, run, enabled=True, tag='topo'):
        self._run = run
        self._enabled = enabled
        self._tag = tag

    def __getattr__(self, k):
        return getattr(_nx, k)

    def topological_sort(self, g):
        if not self._enabled:
            yield from _nx.topological_sort(g)
            return
        indeg = dict(g.in_degree())
        ready = [x for x in g.nodes if indeg[x] == 0]
        n = 0
        while ready:
            if len(ready) > 1:
                self._run.stats['topo_choice_points'] += 1
                self._run.nontrivial = True
            x = ready.pop(self._run.sched.choose(self._tag, len(ready)))
            n += 1
            yield x
            for m in g.successors(x):
                indeg[m] -= 1
                if indeg[m] == 0:
                    ready.append(m)
        if n != len(indeg):
            raise _nx.NetworkXUnfeasible('Graph contains a cycle or graph changed during iteration')


class OrderedSetSeam:
    """
    Stand-in for the builtin ``set`` *as a callable* in a module's globals:
    ``list(set(xs))`` yields the de-duplicated elements in a ``choose``-permuted
    order -- a legal behaviour of ``set`` iteration.
    """

    def __init__(self, run, enabled=True, tag='setorder'):
        self._run = run
        self._enabled = enabled
        self._tag = tag

    def __call__(self, it=()):
        uniq = list(dict.fromkeys(it))
        if not self._enabled:
            # CPython's own order is a function of the element hashes (path strings, hash seed):
            # use a fixed legal order instead so that the run stays a function of its seed
            return _PermutedSet(sorted(uniq, key=str))
        if len(uniq) > 1:
            self._run.stats['set_order_choice_points'] += 1
            self._run.nontrivial = True
        return _PermutedSet(self._run.sched.shuffled(self._tag, uniq))


class _PermutedSet(set):
    """A set whose iteration order is the one the simulator chose."""

    def __init__(self, ordered):
        super().__init__(ordered)
        self._ordered = list(ordered)

    def __iter__(self):
        return iter(self._ordered)


class Patches:
    """Reversible module-attribute substitution."""

    def __init__(self):
        self._undo = []

    def set(self, obj, name, value):
        missing = object()
        old = obj.__dict__.get(name, missing) if hasattr(obj, '__dict__') else getattr(obj, name, missing)
        self._undo.append((obj, name, old, missing))
        setattr(obj, name, value)

    def undo(self):
        for obj, name, old, missing in reversed(self._undo):
            if old is missing:
                try:
                    delattr(obj, name)
                except AttributeError:
                    pass
            else:
                setattr(obj, name, old)
        self._undo = []
