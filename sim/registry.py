"""Property -> engine registry and per-tier budgets."""
import importlib

# property -> (module, class)
ENGINES = {
    'C44': ('sim.engines.build', 'BuildEngine'),
    'C42': ('sim.engines.lint', 'LintEngine'),
    'C12': ('sim.engines.scope', 'ScopeEngine'),
    'C13': ('sim.engines.scope', 'ScopeEngine'),
    'C16': ('sim.engines.attach', 'AttachEngine'),
    'C17': ('sim.engines.clone', 'CloneEngine'),
    'C19': ('sim.engines.regex', 'RegexEngine'),
    'C21': ('sim.engines.batch', 'BatchEngine'),
    'C22': ('sim.engines.batch', 'BatchEngine'),
    'C24': ('sim.engines.plan', 'PlanEngine'),
    'C25': ('sim.engines.itemhist', 'ItemHistoryEngine'),
}

# wall-clock budget (seconds) of the exploration phase and cap on runs, per tier
BUDGET = {
    'quick': {'secs': 40, 'max_runs': 400000, 'block_runs': 100000, 'block_secs': 40},
    'thorough': {'secs': 900, 'max_runs': 2000000000, 'block_runs': 1000000, 'block_secs': 150},
}

_cache = {}


def get_engine(prop):
    if prop not in ENGINES:
        raise KeyError(f'no engine for property {prop}')
    mod, cls = ENGINES[prop]
    key = (mod, cls)
    if key not in _cache:
        eng = getattr(importlib.import_module(mod), cls)()
        eng.setup()
        _cache[key] = eng
    return _cache[key]
