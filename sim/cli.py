"""
check <property> [--tier quick|thorough] [--seed N] [--replay FILE] ...

Runner: fans blocks of simulated runs out over worker interpreters (each with
its own PYTHONHASHSEED, part of the simulated environment), aggregates the
evidence, minimises and re-verifies violations, applies the known-findings
file and prints the verdict lines.

Exit codes: 0 = property held on everything explored (or only listed known
findings), 1 = VIOLATION, 2 = harness error (never a verdict).
"""
import argparse
import faulthandler
import json
import os
import subprocess
import sys
import time
from collections import Counter
from pathlib import Path

VERIF = Path(__file__).resolve().parent.parent
PY = sys.executable


def _args(argv):
    ap = argparse.ArgumentParser(prog='check')
    ap.add_argument('prop')
    ap.add_argument('--tier', default=os.environ.get('VERIF_TIER', 'quick'), choices=['quick', 'thorough'])
    ap.add_argument('--seed', type=int, default=int(os.environ.get('VERIF_SEED', '0') or 0))
    ap.add_argument('--replay')
    ap.add_argument('--jobs', type=int, default=int(os.environ.get('VERIF_JOBS', '0') or 0) or
                    min(16, os.cpu_count() or 4))
    ap.add_argument('--secs', type=float)
    ap.add_argument('--max-runs', type=int)
    ap.add_argument('--no-evidence', action='store_true')
    ap.add_argument('--keep-going', action='store_true', help='do not stop blocks at the first violation')
    # internal roles
    ap.add_argument('--worker', action='store_true')
    ap.add_argument('--minimise')
    ap.add_argument('--verify')
    ap.add_argument('--block', type=int, default=0)
    ap.add_argument('--start', type=int, default=0)
    ap.add_argument('--count', type=int, default=1)
    ap.add_argument('--out')
    ap.add_argument('--budget', type=float, default=60.0)
    return ap.parse_args(argv)


# ---------------------------------------------------------------------------
# worker role
# ---------------------------------------------------------------------------

def worker(a):
    from sim import core  # pylint: disable=import-outside-toplevel
    core.bootstrap()
    from sim.registry import get_engine  # pylint: disable=import-outside-toplevel
    t0 = time.time()
    eng = get_engine(a.prop)
    t_import = time.time() - t0
    deadline = time.time() + (a.secs or 1e9)
    res = {'block': a.block, 'hashseed': os.environ.get('PYTHONHASHSEED'), 'runs': 0, 'nontrivial': 0,
           'digests': [], 'stats': Counter(), 'sim_time': 0.0, 'steps': 0, 'events': 0, 'choices': 0,
           'samples': [], 'violations': [], 'harness_errors': [], 't_import': t_import,
           'first': a.start, 'last': None}
    digests = set()
    n_dumped = 0
    dumped_sigs = set()
    dumped_known = set()
    known_list, _ = load_known()
    rdir = VERIF / 'replays'
    for i in range(a.start, a.start + a.count):
        if time.time() >= deadline:
            break
        rs = core.run_seed_of(a.seed, a.prop, i)
        faulthandler.dump_traceback_later(300, exit=True)
        try:
            run = core.fresh_run(a.prop, rs, a.tier)
        except BaseException as e:  # pylint: disable=broad-except
            if isinstance(e, KeyboardInterrupt):
                raise
            res['harness_errors'].append({'index': i, 'run_seed': rs, 'error': f'{type(e).__name__}: {e}',
                                          'trace': core.format_exc()[-3000:]})
            if len(res['harness_errors']) >= 3:
                break
            continue
        finally:
            faulthandler.cancel_dump_traceback_later()
        r = run.result()
        res['runs'] += 1
        res['last'] = i
        res['sim_time'] += r['sim_time']
        res['steps'] += r['steps']
        res['events'] += r['n_events']
        res['choices'] += r['n_choices']
        res['stats'].update(r['stats'])
        if r['nontrivial']:
            res['nontrivial'] += 1
            digests.add(r['digest'])
        if len(res['samples']) < 2 and r['nontrivial']:
            res['samples'].append({'index': i, 'run_seed': rs, 'scenario': eng.describe(run.scenario),
                                   'events_head': [list(map(str, e)) for e in run.events[:40]],
                                   'n_events': r['n_events'], 'n_choices': r['n_choices'],
                                   'digest': r['digest']})
        if r['violations']:
            seen_sigs = set()
            for v in r['violations']:
                if v['sig'] in seen_sigs:
                    continue
                seen_sigs.add(v['sig'])
                entry = {'index': i, 'run_seed': rs, 'violation': v, 'all': r['violations'][:5]}
                kf = match_known(known_list, a.prop, v['sig'])
                if kf is not None:
                    # one raw trace per listed finding and block is enough; they do not use up the budget
                    # that guarantees a replay for every unlisted signature
                    dump = id(kf) not in dumped_known
                    dumped_known.add(id(kf))
                else:
                    dump = v['sig'] not in dumped_sigs and n_dumped < 16
                if dump:
                    dumped_sigs.add(v['sig'])
                    rdir.mkdir(exist_ok=True)
                    path = rdir / f'raw-{a.prop}-{rs:016x}-{len(seen_sigs)}.json'
                    with open(path, 'w') as f:
                        json.dump(core.make_replay(a.prop, run, a.tier, v), f)
                    entry['raw'] = str(path)
                    n_dumped += 0 if kf is not None else 1
                res['violations'].append(entry)
            unknown = sum(1 for e in res['violations']
                          if match_known(known_list, a.prop, e['violation']['sig']) is None)
            if not a.keep_going and unknown >= 20:
                break
    res['digests'] = sorted(digests)
    res['stats'] = dict(res['stats'])
    res['wall'] = time.time() - t0
    with open(a.out, 'w') as f:
        json.dump(res, f)
    return 0


def minimise_role(a):
    from sim import core  # pylint: disable=import-outside-toplevel
    core.bootstrap()
    with open(a.minimise) as f:
        rp = json.load(f)
    out = core.minimise(rp, budget_s=a.budget)
    with open(a.out, 'w') as f:
        json.dump(out, f, indent=1)
    return 0


def verify_role(a):
    """Replay a file in this (fresh) interpreter; exit 0 iff the same class reproduces."""
    from sim import core  # pylint: disable=import-outside-toplevel
    core.bootstrap()
    rp, run = core.replay_file(a.verify)
    cls = rp['violation']['class']
    ok = core.same_violation(run, cls)
    out = {'reproduced': ok, 'digest': run.digest(), 'violations': [v.to_json() for v in run.violations]}
    if a.out:
        with open(a.out, 'w') as f:
            json.dump(out, f)
    else:
        print(json.dumps(out, indent=1))
    return 0 if ok else 3


# ---------------------------------------------------------------------------
# runner role
# ---------------------------------------------------------------------------

def _spawn(argv, hashseed, log):
    env = dict(os.environ)
    env['PYTHONHASHSEED'] = str(hashseed)
    env['PYTHONPATH'] = str(VERIF)
    env.setdefault('PYTHONDONTWRITEBYTECODE', '1')
    return subprocess.Popen([PY, str(VERIF / 'check')] + argv, env=env, cwd=str(VERIF),
                            stdout=log, stderr=subprocess.STDOUT)


def load_known():
    known, fixed = [], []
    p = VERIF / 'known_findings.jsonl'
    if p.exists():
        for line in p.read_text().splitlines():
            line = line.strip()
            if not line or line.startswith('#'):
                continue
            e = json.loads(line)
            (known if e.get('status') == 'known' else fixed).append(e)
    return known, fixed


def match_known(known, prop, *sigs):
    import re  # pylint: disable=import-outside-toplevel
    for k in known:
        if k['property'] != prop:
            continue
        for sig in sigs:
            if sig is None:
                continue
            if k.get('sig') == sig or (k.get('sig_re') and re.fullmatch(k['sig_re'], sig)):
                return k
    return None


def _known_hit(hits, kf, sig, runs, replay):
    h = hits.setdefault(id(kf), {'kf': kf, 'sigs': [], 'runs': 0, 'replay': None})
    h['sigs'].append(sig)
    h['runs'] += runs
    if h['replay'] is None and replay is not None:
        h['replay'] = str(replay)


def run_checks(a):
    from sim.kernel import H  # pylint: disable=import-outside-toplevel
    from sim.registry import BUDGET, ENGINES  # pylint: disable=import-outside-toplevel
    if a.prop not in ENGINES:
        print(f'HARNESS-ERROR unknown property {a.prop}')
        return 2
    t0 = time.time()
    b = dict(BUDGET[a.tier])
    if a.secs:
        b['secs'] = a.secs
        b['block_secs'] = min(b['block_secs'], a.secs)
    if a.max_runs:
        b['max_runs'] = a.max_runs
    tmp = VERIF / '.work' / f'{a.prop}-{a.tier}-{os.getpid()}'
    tmp.mkdir(parents=True, exist_ok=True)
    deadline = t0 + b['secs']
    jobs = a.jobs
    per_block = max(1, min(b['block_runs'], -(-b['max_runs'] // jobs)))
    active = {}
    results = []
    failed_blocks = []
    next_block = 0
    launched_runs = 0
    logs = []

    def launch():
        nonlocal next_block, launched_runs
        blk = next_block
        next_block += 1
        hs = H('hashseed', a.seed, a.prop, blk) % 65536
        out = tmp / f'block{blk}.json'
        secs = max(5.0, min(b['block_secs'], deadline - time.time()))
        argv = [a.prop, '--worker', '--tier', a.tier, '--seed', str(a.seed), '--block', str(blk),
                '--start', str(blk * per_block), '--count', str(per_block), '--secs', str(secs),
                '--out', str(out)]
        if a.keep_going:
            argv.append('--keep-going')
        lf = open(tmp / f'block{blk}.log', 'w')  # pylint: disable=consider-using-with
        logs.append(lf)
        active[blk] = (_spawn(argv, hs, lf), out, time.time() + secs + 400)
        launched_runs += per_block

    while True:
        while len(active) < jobs and launched_runs < b['max_runs'] and \
                (next_block < jobs or time.time() < deadline - 15):
            launch()
        if not active:
            break
        time.sleep(0.2)
        for blk, (p, out, kill_at) in list(active.items()):
            rc = p.poll()
            if rc is None:
                if time.time() > kill_at:
                    p.kill()
                    failed_blocks.append((blk, 'killed: wall-clock cap'))
                    del active[blk]
                continue
            del active[blk]
            if rc != 0 or not out.exists():
                tail = (tmp / f'block{blk}.log').read_text()[-2000:]
                failed_blocks.append((blk, f'exit {rc}: {tail}'))
            else:
                results.append(json.loads(out.read_text()))
    for lf in logs:
        lf.close()

    # -- aggregate ----------------------------------------------------------
    from sim import core  # pylint: disable=import-outside-toplevel
    runs = sum(r['runs'] for r in results)
    digests = set()
    stats = Counter()
    for r in results:
        digests.update(r['digests'])
        stats.update(r['stats'])
    harness_errors = [e for r in results for e in r['harness_errors']]
    raw_violations = [v for r in results for v in r['violations']]
    wall_explore = time.time() - t0

    # -- violations: minimise, verify in a fresh interpreter, classify -------
    known, _fixed = load_known()
    verdict_lines = []
    known_hits = {}
    n_new = 0
    by_sig = {}
    for v in raw_violations:
        by_sig.setdefault(v['violation']['sig'], []).append(v)
    confirmed = []
    for sig, vs in sorted(by_sig.items()):
        cand = next((v for v in vs if 'raw' in v), None)
        if cand is None:
            kf0 = match_known(known, a.prop, sig)
            if kf0 is not None:
                confirmed.append({'sig': sig, 'replay': None, 'count': len(vs), 'known': True,
                                  'detail': vs[0]['violation']['detail'][:500]})
                _known_hit(known_hits, kf0, sig, len(vs), None)
                continue
            harness_errors.append({'error': f'violation {sig} has no raw replay'})
            continue
        with open(cand['raw']) as f:
            hs = json.load(f)['pythonhashseed']
        kf0 = match_known(known, a.prop, sig)
        if kf0 is not None:
            # a listed finding: no need to minimise it again on every run; keep the raw trace as replay
            keep = None
            if id(kf0) not in known_hits or known_hits[id(kf0)]['replay'] is None:
                # one replay per listed finding is enough
                keep = VERIF / 'replays' / f'{a.prop}-known-{cand["run_seed"]:016x}.json'
                os.replace(cand['raw'], keep)
            confirmed.append({'sig': sig, 'replay': str(keep) if keep else None, 'count': len(vs), 'known': True,
                              'detail': cand['violation']['detail'][:500]})
            _known_hit(known_hits, kf0, sig, len(vs), keep)
            continue
        minp = VERIF / 'replays' / f'{a.prop}-{cand["run_seed"]:016x}.json'
        lf = open(tmp / 'minimise.log', 'a')  # pylint: disable=consider-using-with
        p = _spawn([a.prop, '--minimise', cand['raw'], '--out', str(minp), '--budget',
                    str(40 if a.tier == 'quick' else 120)], hs, lf)
        try:
            rc = p.wait(timeout=600)
        except subprocess.TimeoutExpired:
            p.kill()
            rc = -9
        if rc != 0:
            # could not minimise (e.g. not reproducible): harness error, never a verdict
            harness_errors.append({'error': f'minimiser failed for {sig} (rc={rc}); raw replay {cand["raw"]}',
                                   'trace': (tmp / 'minimise.log').read_text()[-2000:]})
            continue
        vo = tmp / 'verify.json'
        p = _spawn([a.prop, '--verify', str(minp), '--out', str(vo)], hs, lf)
        try:
            rc = p.wait(timeout=600)
        except subprocess.TimeoutExpired:
            p.kill()
            rc = -9
        lf.close()
        if rc != 0:
            harness_errors.append({'error': f'minimised replay of {sig} did not reproduce in a fresh '
                                            f'interpreter (rc={rc}): nondeterminism; file {minp}'})
            continue
        msig = json.loads(minp.read_text())['violation']['sig']
        kf = match_known(known, a.prop, sig, msig)
        confirmed.append({'sig': sig, 'replay': str(minp), 'count': len(vs), 'known': bool(kf),
                          'detail': cand['violation']['detail'][:500]})
        if kf:
            _known_hit(known_hits, kf, sig, len(vs), minp)
        else:
            n_new += 1
            verdict_lines.append(f'VIOLATION property={a.prop} replay={minp}')
            verdict_lines.append(f'  class={sig} runs={len(vs)} detail={cand["violation"]["detail"][:400]}')

    # one line per listed finding, however many signatures of this run it covers
    for h in known_hits.values():
        more = f' (+{len(h["sigs"]) - 1} more signatures)' if len(h['sigs']) > 1 else ''
        verdict_lines.append(f'KNOWN-FINDING: property={a.prop} {h["kf"]["what"]} [sig={h["sigs"][0]}{more}; '
                             f'{h["runs"]} runs; replay={h["replay"]}]')

    # -- evidence -------------------------------------------------------------
    wall = time.time() - t0
    eng_mod, eng_cls = ENGINES[a.prop]
    import importlib  # pylint: disable=import-outside-toplevel
    E = getattr(importlib.import_module(eng_mod), eng_cls)
    samples = [s for r in results for s in r['samples']][:3]
    fired = {k: stats.get(k, 0) for k in getattr(E, 'fault_kinds_by_prop', {}).get(a.prop, E.fault_kinds)}
    probes = {k: stats.get(k, 0) for k in E.probes}
    evidence = {
        'property_id': a.prop, 'tier': a.tier, 'seed': a.seed, 'level': 'exploration',
        'coverage': {
            'evaluations': runs,
            'distinct_nontrivial': len(digests),
            'rule': E.nontrivial_rule,
            'samples': samples,
            'nontrivial_runs': sum(r['nontrivial'] for r in results),
            'runs_per_hour': int(runs / max(wall_explore, 1e-9) * 3600),
            'seeds': {'VERIF_SEED': a.seed, 'run_seed': 'H("run", VERIF_SEED, property, index)',
                      'index_ranges': [[r['first'], r['last']] for r in sorted(results, key=lambda r: r['block'])
                                       if r['last'] is not None][:64]},
            'simulated_seconds': round(sum(r['sim_time'] for r in results), 3),
            'scheduling_steps': sum(r['steps'] for r in results),
            'history_events': sum(r['events'] for r in results),
            'choices_drawn': sum(r['choices'] for r in results),
            'fault_kinds_fired': fired,
            'probes': probes,
            'other_counters': {k: v for k, v in sorted(stats.items()) if k not in fired and k not in probes},
            'interpreters': len(results),
            'pythonhashseeds': sorted({r['hashseed'] for r in results})[:200],
            'real_components': list(E.real),
            'stub_components': list(E.stubs),
            'engine': E.name,
            # every unlisted signature; of the signatures covered by listed findings only the first 60 (there can
            # be thousands of feature combinations), with the total
            'violations_confirmed': [c for c in confirmed if not c['known']] +
                                    [c for c in confirmed if c['known']][:60],
            'signatures_covered_by_listed_findings': sum(1 for c in confirmed if c['known']),
        },
        'assumptions': list(getattr(E, 'assumptions', ())) + [
            'seeded sampling of schedules/faults: a clean batch is evidence, not proof',
            'every violation is minimised and re-verified by replay in a fresh interpreter before it is reported',
        ],
        'wall_s': round(wall, 2),
        'violations': n_new,
    }
    stuck = [k for k, v in fired.items() if v == 0]
    evidence['coverage']['fault_kinds_stuck_at_zero'] = stuck
    if not a.no_evidence:
        ed = VERIF / 'evidence'
        ed.mkdir(exist_ok=True)
        with open(ed / f'{a.prop}.json', 'w') as f:
            json.dump(evidence, f, indent=1, default=str)

    print(f'[{a.prop}] tier={a.tier} seed={a.seed} runs={runs} nontrivial-distinct={len(digests)} '
          f'interpreters={len(results)} sim_time={evidence["coverage"]["simulated_seconds"]}s '
          f'wall={wall:.1f}s faults={fired} stuck={stuck}')
    for line in verdict_lines:
        print(line)
    import shutil  # pylint: disable=import-outside-toplevel
    _ = core
    if failed_blocks or harness_errors:
        for blk, why in failed_blocks[:3]:
            print(f'HARNESS-ERROR block {blk}: {why}')
        for e in harness_errors[:3]:
            print(f'HARNESS-ERROR {e.get("error")}\n{e.get("trace", "")}')
        return 1 if n_new else 2
    shutil.rmtree(tmp, ignore_errors=True)
    if runs == 0:
        print('HARNESS-ERROR no runs executed')
        return 2
    if n_new:
        return 1
    if len(digests) < 2:
        print('HARNESS-ERROR fewer than 2 distinct non-trivial runs')
        return 2
    return 1 if n_new else 0


def replay(a):
    """Replay in a fresh interpreter with the recorded hash seed."""
    with open(a.replay) as f:
        rp = json.load(f)
    vo = VERIF / '.work' / f'verify-{os.getpid()}.json'
    vo.parent.mkdir(exist_ok=True)
    p = _spawn([rp['property'], '--verify', a.replay, '--out', str(vo)], rp.get('pythonhashseed', '0'), None)
    rc = p.wait()
    out = json.loads(vo.read_text()) if vo.exists() else {}
    vo.unlink(missing_ok=True)
    if rc == 0:
        known, _ = load_known()
        sig = rp['violation']['sig']
        kf = match_known(known, rp['property'], sig)
        for v in out.get('violations', []):
            print(f'  {v["class"]}: {v["detail"][:600]}')
        if kf:
            print(f'KNOWN-FINDING: property={rp["property"]} {kf["what"]} [replay={a.replay}]')
            return 0
        print(f'VIOLATION property={rp["property"]} replay={a.replay}')
        return 1
    if rc == 3:
        print(f'replay did not reproduce {rp["violation"]["class"]} (digest {out.get("digest")}); '
              f'violations seen: {out.get("violations")}')
        return 0
    print(f'HARNESS-ERROR replay failed rc={rc}')
    return 2


def main(argv=None):
    a = _args(argv if argv is not None else sys.argv[1:])
    if a.worker:
        return worker(a)
    if a.minimise:
        return minimise_role(a)
    if a.verify:
        return verify_role(a)
    if a.replay:
        return replay(a)
    return run_checks(a)
