#!/bin/sh
# Offline setup: nothing to build; verify the interpreter, the tree under test and the harness import.
set -e
cd "$(dirname "$0")"
chmod +x check tools/*.py 2>/dev/null || true
/venv/bin/python - <<'PY'
import sys
sys.path.insert(0, '.')
from sim import core
core.bootstrap()
import loki, networkx  # noqa
from sim import kernel, pool, seams, registry  # noqa
print('setup ok: loki from', loki.__file__)
PY
